import Pff.Model.Ecc
import Pff.Props.C10
/-! Helper lemmas for the per-file correction logic (C01, C03, C04, C13). -/
namespace Pff.Ecc

open Pff.Layout

/-! ## one block -/

theorem processBlock_cases (O : Ops) (fast : Bool) (mbs : Nat) (b : AsmBlock) :
    processBlock O fast mbs b = (b.msg, .intact) ∨ processBlock O fast mbs b = (b.msg, .failed) ∨
      ∃ m' e', O.dec b.k b.msg b.ecc = some (m', e') ∧
        (O.H m' = b.hash ∨ (O.chk b.k m' e' = true ∧ eccComplete mbs b = true)) ∧
        processBlock O fast mbs b = (m', .repaired) := by
  unfold processBlock
  by_cases hn : needsRepair O fast b = true
  · rw [if_pos hn]
    cases hd : O.dec b.k b.msg b.ecc with
    | none => exact Or.inr (Or.inl rfl)
    | some p =>
      obtain ⟨m', e'⟩ := p
      by_cases hc : (decide (O.H m' = b.hash) || (O.chk b.k m' e' && eccComplete mbs b)) = true
      · refine Or.inr (Or.inr ⟨m', e', rfl, ?_, ?_⟩)
        · simpa only [Bool.or_eq_true, Bool.and_eq_true, decide_eq_true_eq] using hc
        · simp only [hc, if_true]
      · refine Or.inr (Or.inl ?_)
        simp only [hc, Bool.false_eq_true, if_false]
  · rw [if_neg hn]
    exact Or.inl rfl

theorem processBlock_length (O : Ops)
    (hlen : ∀ k m e m' e', O.dec k m e = some (m', e') → m'.length = m.length)
    (fast : Bool) (mbs : Nat) (b : AsmBlock) : (processBlock O fast mbs b).1.length = b.msg.length := by
  rcases processBlock_cases O fast mbs b with h | h | ⟨m', e', hd, _, h⟩
  · rw [h]
  · rw [h]
  · rw [h]; exact hlen _ _ _ _ _ hd

/-! ## the loop -/

/-- `runLoop` from an arbitrary state and starting block number -/
def runFrom (O : Ops) (fast : Bool) (mbs thr : Nat) (s : LoopSt) (n : Nat) (l : List AsmBlock) : LoopSt :=
  (l.zipIdx n).foldl (fun s bi => loopStep O fast mbs thr s bi.2 bi.1) s

theorem runLoop_eq_runFrom (O : Ops) (fast : Bool) (mbs thr : Nat) (l : List AsmBlock) :
    runLoop O fast mbs thr l = runFrom O fast mbs thr { written := [] } 0 l := rfl

theorem runFrom_nil (O : Ops) (fast : Bool) (mbs thr : Nat) (s : LoopSt) (n : Nat) :
    runFrom O fast mbs thr s n [] = s := rfl

theorem runFrom_cons (O : Ops) (fast : Bool) (mbs thr : Nat) (s : LoopSt) (n : Nat) (b : AsmBlock)
    (l : List AsmBlock) :
    runFrom O fast mbs thr s n (b :: l) = runFrom O fast mbs thr (loopStep O fast mbs thr s n b) (n + 1) l := by
  simp only [runFrom, List.zipIdx_cons, List.foldl_cons]

theorem runFrom_append (O : Ops) (fast : Bool) (mbs thr : Nat) (s : LoopSt) (n : Nat)
    (l1 l2 : List AsmBlock) :
    runFrom O fast mbs thr s n (l1 ++ l2) =
      runFrom O fast mbs thr (runFrom O fast mbs thr s n l1) (n + l1.length) l2 := by
  simp only [runFrom, List.zipIdx_append, List.foldl_append]

theorem loopStep_stopped (O : Ops) (fast : Bool) (mbs thr : Nat) (s : LoopSt) (i : Nat) (b : AsmBlock)
    (h : s.stopped = true) : loopStep O fast mbs thr s i b = s := by
  unfold loopStep
  rw [if_pos h]

theorem loopStep_run (O : Ops) (fast : Bool) (mbs thr : Nat) (s : LoopSt) (i : Nat) (b : AsmBlock)
    (h : ¬ s.stopped = true) :
    (loopStep O fast mbs thr s i b).written = s.written ++ [(processBlock O fast mbs b).1] ∧
    (loopStep O fast mbs thr s i b).partialFail =
      (s.partialFail || decide ((processBlock O fast mbs b).2 = .failed)) := by
  unfold loopStep
  rw [if_neg h]
  rcases hp : processBlock O fast mbs b with ⟨w, st⟩
  cases st <;> simp

theorem runFrom_stopped (O : Ops) (fast : Bool) (mbs thr : Nat) :
    ∀ (l : List AsmBlock) (s : LoopSt) (n : Nat), s.stopped = true → runFrom O fast mbs thr s n l = s := by
  intro l
  induction l with
  | nil => intro s n _; rfl
  | cons b l ih =>
    intro s n h
    rw [runFrom_cons, loopStep_stopped O fast mbs thr s n b h]
    exact ih s (n + 1) h

/-- the state after the loop: `m` blocks were processed and written, in order; the loop went
through all the blocks unless it bailed out; `partialFail` records exactly the failures among the
blocks processed -/
theorem runFrom_inv (O : Ops) (fast : Bool) (mbs thr : Nat) :
    ∀ (l : List AsmBlock) (s : LoopSt) (n : Nat),
      ∃ m, m ≤ l.length ∧
        (runFrom O fast mbs thr s n l).written =
          s.written ++ (l.take m).map (fun b => (processBlock O fast mbs b).1) ∧
        ((runFrom O fast mbs thr s n l).stopped = true ∨ m = l.length) ∧
        (runFrom O fast mbs thr s n l).partialFail =
          (s.partialFail ||
            (l.take m).any (fun b => decide ((processBlock O fast mbs b).2 = .failed))) := by
  intro l
  induction l with
  | nil =>
    intro s n
    refine ⟨0, Nat.le_refl _, ?_, Or.inr rfl, ?_⟩
    · simp only [runFrom_nil, List.take_nil, List.map_nil, List.append_nil]
    · simp only [runFrom_nil, List.take_nil, List.any_nil, Bool.or_false]
  | cons b l ih =>
    intro s n
    by_cases hs : s.stopped = true
    · rw [runFrom_stopped O fast mbs thr _ s n hs]
      refine ⟨0, Nat.zero_le _, ?_, Or.inl hs, ?_⟩
      · simp only [List.take_zero, List.map_nil, List.append_nil]
      · simp only [List.take_zero, List.any_nil, Bool.or_false]
    · rw [runFrom_cons]
      obtain ⟨m, hm, hw, hst, hpf⟩ := ih (loopStep O fast mbs thr s n b) (n + 1)
      obtain ⟨h1, h2⟩ := loopStep_run O fast mbs thr s n b hs
      refine ⟨m + 1, by simp only [List.length_cons]; omega, ?_, ?_, ?_⟩
      · rw [hw, h1]
        simp only [List.take_succ_cons, List.map_cons, List.append_assoc, List.singleton_append]
      · rcases hst with h | h
        · exact Or.inl h
        · exact Or.inr (by simp only [List.length_cons, h])
      · rw [hpf, h2]
        simp only [List.take_succ_cons, List.any_cons, Bool.or_assoc]

theorem runLoop_inv (O : Ops) (fast : Bool) (mbs thr : Nat) (l : List AsmBlock) :
    ∃ m, m ≤ l.length ∧
      (runLoop O fast mbs thr l).written = (l.take m).map (fun b => (processBlock O fast mbs b).1) ∧
      (runLoop O fast mbs thr l).written.length = m ∧
      ((runLoop O fast mbs thr l).stopped = true ∨ m = l.length) ∧
      (runLoop O fast mbs thr l).partialFail =
        (l.take m).any (fun b => decide ((processBlock O fast mbs b).2 = .failed)) := by
  obtain ⟨m, hm, hw, hst, hpf⟩ := runFrom_inv O fast mbs thr l { written := [] } 0
  rw [← runLoop_eq_runFrom] at hw hst hpf
  refine ⟨m, hm, ?_, ?_, hst, ?_⟩
  · simpa only [List.nil_append] using hw
  · rw [hw]
    simp only [List.nil_append, List.length_map, List.length_take]
    omega
  · simpa only [Bool.false_or] using hpf

theorem runLoop_written_length_le (O : Ops) (fast : Bool) (mbs thr : Nat) (l : List AsmBlock) :
    (runLoop O fast mbs thr l).written.length ≤ l.length := by
  obtain ⟨m, hm, _, hl, _⟩ := runLoop_inv O fast mbs thr l
  omega

theorem runLoop_written_getElem? (O : Ops) (fast : Bool) (mbs thr : Nat) (l : List AsmBlock) (i : Nat)
    (hi : i < (runLoop O fast mbs thr l).written.length) :
    ∃ b, l[i]? = some b ∧ (runLoop O fast mbs thr l).written[i]? = some (processBlock O fast mbs b).1 := by
  obtain ⟨m, hm, hw, hl, _⟩ := runLoop_inv O fast mbs thr l
  have him : i < m := by omega
  have hil : i < l.length := by omega
  refine ⟨l[i], List.getElem?_eq_getElem hil, ?_⟩
  rw [hw, List.getElem?_map, List.getElem?_take_of_lt him, List.getElem?_eq_getElem hil]
  rfl

theorem runLoop_partialFail (O : Ops) (fast : Bool) (mbs thr : Nat) (l : List AsmBlock) (i : Nat)
    (hi : i < l.length) (hproc : i < (runLoop O fast mbs thr l).written.length)
    (hf : (processBlock O fast mbs l[i]).2 = .failed) :
    (runLoop O fast mbs thr l).partialFail = true := by
  obtain ⟨m, hm, _, hl, _, hpf⟩ := runLoop_inv O fast mbs thr l
  rw [hpf, List.any_eq_true]
  have him : i < (l.take m).length := by rw [List.length_take]; omega
  refine ⟨(l.take m)[i], List.getElem_mem him, ?_⟩
  rw [List.getElem_take]
  simpa only [decide_eq_true_eq] using hf

theorem runLoop_take (O : Ops) (fast : Bool) (mbs thr : Nat) (l : List AsmBlock) (j : Nat) :
    (runLoop O fast mbs thr l).written.take j = (runLoop O fast mbs thr (l.take j)).written.take j := by
  by_cases hj : l.length ≤ j
  · rw [List.take_of_length_le hj]
  · have hsplit : runLoop O fast mbs thr l =
        runFrom O fast mbs thr (runLoop O fast mbs thr (l.take j)) (0 + (l.take j).length) (l.drop j) := by
      rw [runLoop_eq_runFrom, runLoop_eq_runFrom, ← runFrom_append, List.take_append_drop]
    obtain ⟨m, hm, hw, hl, hst, _⟩ := runLoop_inv O fast mbs thr (l.take j)
    rcases hst with hst | hst
    · rw [hsplit, runFrom_stopped O fast mbs thr _ _ _ hst]
    · obtain ⟨m2, _, hw2, _, _⟩ :=
        runFrom_inv O fast mbs thr (l.drop j) (runLoop O fast mbs thr (l.take j)) (0 + (l.take j).length)
      rw [hsplit, hw2]
      have hlen : (runLoop O fast mbs thr (l.take j)).written.length = j := by
        rw [hl, hst, List.length_take]; omega
      rw [List.take_append_of_le_length (by omega)]

/-! ## lengths -/

theorem flatten_length_map_congr {α : Type} (l : List α) (f g : α → Bytes)
    (h : ∀ a ∈ l, (f a).length = (g a).length) :
    (l.map f).flatten.length = (l.map g).flatten.length := by
  induction l with
  | nil => rfl
  | cons a l ih =>
    simp only [List.map_cons, List.flatten_cons, List.length_append]
    rw [h a List.mem_cons_self, ih (fun x hx => h x (List.mem_cons_of_mem _ hx))]

theorem flatten_length_take_le {α : Type} (l : List α) (f : α → Bytes) (m : Nat) :
    ((l.take m).map f).flatten.length ≤ (l.map f).flatten.length := by
  have h : (l.map f).flatten = ((l.take m).map f).flatten ++ ((l.drop m).map f).flatten := by
    rw [← List.flatten_append, ← List.map_append, List.take_append_drop]
  rw [h, List.length_append]
  omega

/-- header tool: the messages fit in what is left of the header -/
theorem assembleHeader_msgs_length (k hashLen mbs readLen : Nat) (content track : Bytes) :
    ∀ fuel i j,
      (((assembleHeader k hashLen mbs readLen content track fuel i j).map (·.msg)).flatten).length ≤
        (content.take readLen).length - i := by
  intro fuel
  induction fuel with
  | zero => intro i j; simp only [assembleHeader, List.map_nil, List.flatten_nil, List.length_nil, Nat.zero_le]
  | succ fuel ih =>
    intro i j
    simp only [assembleHeader]
    split
    · have := ih (i + k) (j + hashLen + (mbs - k))
      simp only [List.map_cons, List.flatten_cons, List.length_append, List.length_take,
        List.length_drop] at this ⊢
      omega
    · simp only [List.map_nil, List.flatten_nil, List.length_nil, Nat.zero_le]

/-- whole-file tool: the messages fit in what is left of the file -/
theorem assemble_msgs_length (kOf : Nat → Nat) (hashLen mbs : Nat) (content track : Bytes) :
    ∀ fuel cur e,
      (((assemble kOf hashLen mbs content track fuel cur e).map (·.msg)).flatten).length ≤
        content.length - cur := by
  intro fuel
  induction fuel with
  | zero => intro cur e; simp only [assemble, List.map_nil, List.flatten_nil, List.length_nil, Nat.zero_le]
  | succ fuel ih =>
    intro cur e
    simp only [assemble]
    split
    · split
      · simp only [List.map_nil, List.flatten_nil, List.length_nil, Nat.zero_le]
      · have := ih (cur + ((content.drop cur).take (kOf cur)).length)
          (e + ((track.drop e).take (hashLen + (mbs - kOf cur))).length)
        simp only [List.map_cons, List.flatten_cons, List.length_append, List.length_take,
          List.length_drop] at this ⊢
        omega
    · simp only [List.map_nil, List.flatten_nil, List.length_nil, Nat.zero_le]

/-! ## the two per-file procedures -/

theorem header_body_length (O : Ops)
    (hlen : ∀ k m e m' e', O.dec k m e = some (m', e') → m'.length = m.length)
    (fast : Bool) (mbs thr : Nat) (blocks : List AsmBlock) :
    ((runLoop O fast mbs thr blocks).written ++
        (blocks.drop (runLoop O fast mbs thr blocks).written.length).map (·.msg)).flatten.length =
      ((blocks.map (·.msg)).flatten).length := by
  obtain ⟨m, hm, hw, hl, _⟩ := runLoop_inv O fast mbs thr blocks
  rw [hl, hw, List.flatten_append, List.length_append,
    flatten_length_map_congr (blocks.take m) _ (·.msg) (fun b _ => processBlock_length O hlen fast mbs b),
    ← List.length_append, ← List.flatten_append, ← List.map_append, List.take_append_drop]

theorem whole_body_length_le (O : Ops)
    (hlen : ∀ k m e m' e', O.dec k m e = some (m', e') → m'.length = m.length)
    (fast : Bool) (mbs thr : Nat) (blocks : List AsmBlock) :
    (runLoop O fast mbs thr blocks).written.flatten.length ≤ ((blocks.map (·.msg)).flatten).length := by
  obtain ⟨m, hm, hw, hl, _⟩ := runLoop_inv O fast mbs thr blocks
  rw [hw,
    flatten_length_map_congr (blocks.take m) _ (·.msg) (fun b _ => processBlock_length O hlen fast mbs b)]
  exact flatten_length_take_le blocks (·.msg) m

/-- what the header tool writes, when it writes something -/
theorem correctHeaderFile_output (O : Ops) (fast : Bool) (thr k hashLen mbs readLen : Nat)
    (content track out : Bytes)
    (h : (correctHeaderFile O fast thr k hashLen mbs readLen content track).output = some out) :
    out =
      ((runLoop O fast mbs thr
            (assembleHeader k hashLen mbs readLen content track (content.length + 1) 0 0)).written ++
          ((assembleHeader k hashLen mbs readLen content track (content.length + 1) 0 0).drop
            (runLoop O fast mbs thr
              (assembleHeader k hashLen mbs readLen content track (content.length + 1) 0 0)).written.length).map
            (·.msg)).flatten ++
        content.drop
          (((assembleHeader k hashLen mbs readLen content track (content.length + 1) 0 0).map
            (·.msg)).flatten).length := by
  unfold correctHeaderFile at h
  simp only at h
  split at h
  · simp only [Option.some.injEq] at h
    exact h.symm
  · cases h

/-- what the whole-file tool writes, when it writes something -/
theorem correctWholeFile_output (O : Ops) (fast : Bool) (thr : Nat) (kOf : Nat → Nat)
    (hashLen mbs : Nat) (content track out : Bytes)
    (h : (correctWholeFile O fast thr kOf hashLen mbs content track).output = some out) :
    out =
      (runLoop O fast mbs thr
          (assemble kOf hashLen mbs content track (content.length + 1) 0 0)).written.flatten ++
        content.drop
          (runLoop O fast mbs thr
            (assemble kOf hashLen mbs content track (content.length + 1) 0 0)).written.flatten.length := by
  unfold correctWholeFile at h
  simp only at h
  split at h
  · split at h
    · simp only [Option.some.injEq] at h
      exact h.symm
    · cases h
  · cases h

/-! ## exit status -/

theorem filter_complete_le (rs : List FileResult)
    (hwf : ∀ r ∈ rs, r.complete = true → r.corrupted = true) :
    (rs.filter (·.complete)).length ≤ (rs.filter (·.corrupted)).length := by
  induction rs with
  | nil => exact Nat.le_refl _
  | cons r rs ih =>
    have ih' := ih (fun x hx => hwf x (List.mem_cons_of_mem _ hx))
    have hr := hwf r List.mem_cons_self
    simp only [List.filter_cons]
    cases hc : r.complete with
    | true =>
      rw [hr hc]
      simp only [if_true, List.length_cons]
      omega
    | false =>
      simp only [Bool.false_eq_true, if_false]
      split
      · simp only [List.length_cons]; omega
      · exact ih'

theorem filter_complete_lt (rs : List FileResult)
    (hwf : ∀ r ∈ rs, r.complete = true → r.corrupted = true)
    (h : ∃ r ∈ rs, r.corrupted = true ∧ r.complete = false) :
    (rs.filter (·.complete)).length < (rs.filter (·.corrupted)).length := by
  induction rs with
  | nil =>
    obtain ⟨r, hr, _⟩ := h
    cases hr
  | cons r rs ih =>
    have hwf' : ∀ x ∈ rs, x.complete = true → x.corrupted = true :=
      fun x hx => hwf x (List.mem_cons_of_mem _ hx)
    have hle := filter_complete_le rs hwf'
    have hr := hwf r List.mem_cons_self
    obtain ⟨x, hx, hx1, hx2⟩ := h
    simp only [List.filter_cons]
    rcases List.mem_cons.mp hx with rfl | hx'
    · rw [hx1, hx2]
      simp only [Bool.false_eq_true, if_false, if_true, List.length_cons]
      omega
    · have ih' := ih hwf' ⟨x, hx', hx1, hx2⟩
      cases hc : r.complete with
      | true =>
        rw [hr hc]
        simp only [if_true, List.length_cons]
        omega
      | false =>
        simp only [Bool.false_eq_true, if_false]
        split
        · simp only [List.length_cons]; omega
        · exact ih'

theorem exitStatus_one (rs : List FileResult)
    (hwf : ∀ r ∈ rs, r.complete = true → r.corrupted = true)
    (h : ∃ r ∈ rs, r.corrupted = true ∧ r.complete = false) : exitStatus rs = 1 := by
  have hlt := filter_complete_lt rs hwf h
  unfold exitStatus
  simp only
  rw [if_neg]
  omega

/-! ## truncated track (C13) -/

/-- reading `m` bytes at `e` is not affected by cutting the track at `c` when the bytes actually
read end at or before `c` -/
theorem take_drop_take_eq (t : Bytes) (c e m : Nat)
    (h : t.length ≤ e ∨ e + min m (t.length - e) ≤ c) :
    ((t.take c).drop e).take m = (t.drop e).take m := by
  rcases h with h | h
  · rw [List.drop_eq_nil_of_le h, List.drop_eq_nil_of_le (by rw [List.length_take]; omega)]
  · rw [List.drop_take, List.take_take, List.take_eq_take_iff, List.length_drop]
    omega

theorem assemble_nil_of_ge (kOf : Nat → Nat) (hashLen mbs : Nat) (content track : Bytes)
    (fuel cur e : Nat) (h : track.length ≤ e) :
    assemble kOf hashLen mbs content track fuel cur e = [] := by
  cases fuel with
  | zero => rfl
  | succ fuel =>
    simp only [assemble]
    rw [if_neg (by omega)]

theorem assemble_nil_of_empty (kOf : Nat → Nat) (hashLen mbs : Nat) (content track : Bytes)
    (fuel cur e : Nat) (h : ((content.drop cur).take (kOf cur)).isEmpty = true) :
    assemble kOf hashLen mbs content track (fuel + 1) cur e = [] := by
  simp only [assemble]
  rw [if_pos h, ite_self]

theorem assemble_cons (kOf : Nat → Nat) (hashLen mbs : Nat) (content track : Bytes)
    (fuel cur e : Nat) (h1 : e < track.length)
    (h2 : ¬ ((content.drop cur).take (kOf cur)).isEmpty = true) :
    assemble kOf hashLen mbs content track (fuel + 1) cur e =
      { off := cur, msg := (content.drop cur).take (kOf cur), k := kOf cur,
        hash := ((track.drop e).take (hashLen + (mbs - kOf cur))).take hashLen,
        ecc := ((track.drop e).take (hashLen + (mbs - kOf cur))).drop hashLen } ::
        assemble kOf hashLen mbs content track fuel
          (cur + ((content.drop cur).take (kOf cur)).length)
          (e + ((track.drop e).take (hashLen + (mbs - kOf cur))).length) := by
  simp only [assemble]
  rw [if_pos h1, if_neg h2]

/-- whole-file tool: the blocks whose hash+parity end at or before the cut `c` are assembled
identically from the truncated track -/
theorem assemble_take_prefix (kOf : Nat → Nat) (hashLen mbs : Nat) (content track : Bytes) (c : Nat)
    (hpos : ∀ x, 1 ≤ hashLen + (mbs - kOf x)) :
    ∀ fuel j cur e,
      e + (((assemble kOf hashLen mbs content track fuel cur e).take j).map
            (fun b => b.hash.length + b.ecc.length)).sum ≤ c →
      (assemble kOf hashLen mbs content (track.take c) fuel cur e).take j =
        (assemble kOf hashLen mbs content track fuel cur e).take j := by
  intro fuel
  induction fuel with
  | zero => intro j cur e _; rfl
  | succ fuel ih =>
    intro j cur e hj
    cases j with
    | zero => simp only [List.take_zero]
    | succ j =>
      by_cases h1 : e < track.length
      · by_cases h2 : ((content.drop cur).take (kOf cur)).isEmpty = true
        · rw [assemble_nil_of_empty kOf hashLen mbs content track _ _ _ h2,
            assemble_nil_of_empty kOf hashLen mbs content (track.take c) _ _ _ h2]
        · rw [assemble_cons kOf hashLen mbs content track _ _ _ h1 h2] at hj ⊢
          simp only [List.take_succ_cons, List.map_cons, List.sum_cons, List.length_take,
            List.length_drop] at hj
          have hp := hpos cur
          have h1' : e < (track.take c).length := by rw [List.length_take]; omega
          have hbuf : ((track.take c).drop e).take (hashLen + (mbs - kOf cur)) =
              (track.drop e).take (hashLen + (mbs - kOf cur)) :=
            take_drop_take_eq _ _ _ _ (Or.inr (by omega))
          rw [assemble_cons kOf hashLen mbs content (track.take c) _ _ _ h1' h2, hbuf, List.take_succ_cons, List.take_succ_cons,
            ih j _ _ (by simp only [List.length_take, List.length_drop]; omega)]
      · rw [assemble_nil_of_ge kOf hashLen mbs content track _ _ _ (by omega),
          assemble_nil_of_ge kOf hashLen mbs content (track.take c) _ _ _
            (by rw [List.length_take]; omega)]

theorem assembleHeader_nil_of_ge (k hashLen mbs readLen : Nat) (content track : Bytes)
    (fuel i j : Nat) (h : ¬ (i < (content.take readLen).length ∧ j < track.length)) :
    assembleHeader k hashLen mbs readLen content track fuel i j = [] := by
  cases fuel with
  | zero => rfl
  | succ fuel =>
    simp only [assembleHeader]
    rw [if_neg h]

theorem assembleHeader_cons (k hashLen mbs readLen : Nat) (content track : Bytes)
    (fuel i j : Nat) (h : i < (content.take readLen).length ∧ j < track.length) :
    assembleHeader k hashLen mbs readLen content track (fuel + 1) i j =
      { off := i, msg := ((content.take readLen).drop i).take k, k := k,
        hash := (track.drop j).take hashLen,
        ecc := (track.drop (j + hashLen)).take (mbs - k) } ::
        assembleHeader k hashLen mbs readLen content track fuel (i + k)
          (j + hashLen + (mbs - k)) := by
  simp only [assembleHeader]
  rw [if_pos h]

/-- header tool: same (the ecc position steps by the nominal chunk size, so the hypothesis is
generalised to "past the end of the track, or the chunks read so far end before the cut") -/
theorem assembleHeader_take_prefix (k hashLen mbs readLen : Nat) (content track : Bytes) (c : Nat)
    (hpos : 1 ≤ hashLen + (mbs - k)) :
    ∀ fuel j i e,
      (track.length ≤ e ∨
        e + (((assembleHeader k hashLen mbs readLen content track fuel i e).take j).map
              (fun b => b.hash.length + b.ecc.length)).sum ≤ c) →
      (assembleHeader k hashLen mbs readLen content (track.take c) fuel i e).take j =
        (assembleHeader k hashLen mbs readLen content track fuel i e).take j := by
  intro fuel
  induction fuel with
  | zero => intro j i e _; rfl
  | succ fuel ih =>
    intro j i e hj
    cases j with
    | zero => simp only [List.take_zero]
    | succ j =>
      by_cases h1 : i < (content.take readLen).length ∧ e < track.length
      · rw [assembleHeader_cons k hashLen mbs readLen content track _ _ _ h1] at hj ⊢
        simp only [List.take_succ_cons, List.map_cons, List.sum_cons, List.length_take,
          List.length_drop] at hj
        have h1' : i < (content.take readLen).length ∧ e < (track.take c).length := by
          refine ⟨h1.1, ?_⟩
          rw [List.length_take]; omega
        have hh : ((track.take c).drop e).take hashLen = (track.drop e).take hashLen :=
          take_drop_take_eq _ _ _ _ (Or.inr (by omega))
        have he : ((track.take c).drop (e + hashLen)).take (mbs - k) =
            (track.drop (e + hashLen)).take (mbs - k) :=
          take_drop_take_eq _ _ _ _ (by omega)
        rw [assembleHeader_cons k hashLen mbs readLen content (track.take c) _ _ _ h1', hh, he, List.take_succ_cons,
          List.take_succ_cons, ih j _ _ (by omega)]
      · rw [assembleHeader_nil_of_ge k hashLen mbs readLen content track _ _ _ h1,
          assembleHeader_nil_of_ge k hashLen mbs readLen content (track.take c) _ _ _
            (by rw [List.length_take (l := track)]; omega)]

end Pff.Ecc
