import Pff.Model.Ecc
import Pff.Props.C10
/-! Helper lemmas for the per-file correction logic (C01, C03, C04, C13). -/
namespace Pff.Ecc

end Pff.Ecc
