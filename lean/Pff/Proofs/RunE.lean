import Pff.Model.Run
/-!
Helper lemmas for `Pff/Props/RunE.lean`: an empty ecc track never produces a block, hence never a
write nor a corruption report.
-/
namespace Pff.Run

open Pff.Ecc Pff.Layout Pff.Entry Pff.Scan

theorem entryFields_trackOff_of_neg (e0 : Bytes)
    (h : pyFind delim (stripDelims e0.length e0)
          (pyFind delim (stripDelims e0.length e0)
            (pyFind delim (stripDelims e0.length e0)
              (pyFind delim (stripDelims e0.length e0) 0 + (delim.length : Int)) + (delim.length : Int))
            + (delim.length : Int)) < 0) :
    (entryFields e0).trackOff = ((stripDelims e0.length e0).length : Int) := by
  simp only [entryFields]
  rw [if_pos (Or.inr (Or.inr (Or.inr h)))]

theorem assembleAt_end (kOf : Nat → Nat) (hashLen mbs : Nat) (content stream : Bytes)
    (endpos fuel curpos : Nat) :
    assembleAt kOf hashLen mbs content stream endpos fuel curpos endpos = [] := by
  cases fuel with
  | zero => rfl
  | succ n => simp [assembleAt]

theorem correctWholeAt_end (O : Ops) (fast : Bool) (thr : Nat) (kOf : Nat → Nat) (hashLen mbs : Nat)
    (content stream : Bytes) (endpos : Nat) :
    (correctWholeAt O fast thr kOf hashLen mbs content stream endpos endpos).1 =
      { output := none, corrupted := false, complete := false, partialRep := false } := by
  simp [correctWholeAt, assembleAt_end]

theorem assembleHeader_nil_track (k hashLen mbs readLen : Nat) (content : Bytes) (fuel i j : Nat) :
    assembleHeader k hashLen mbs readLen content [] fuel i j = [] := by
  cases fuel with
  | zero => rfl
  | succ n => simp [assembleHeader]

theorem correctHeaderFile_nil_track (O : Ops) (fast : Bool) (thr k hashLen mbs readLen : Nat)
    (content : Bytes) :
    correctHeaderFile O fast thr k hashLen mbs readLen content [] =
      { output := none, corrupted := false, complete := false, partialRep := false } := by
  simp [correctHeaderFile, assembleHeader_nil_track, runLoop]

theorem pyFrom_of_length_le (s : Bytes) (a : Int) (h : (s.length : Int) ≤ a) : pyFrom s a = [] := by
  unfold pyFrom
  apply List.drop_eq_nil_of_le
  unfold pyBound
  split
  · omega
  · omega

theorem processEntry_no_track (O : Ops) (P : Params) (fs : FS) (stream : Bytes) (a b : Nat)
    (h : (P.tool = .whole ∧ (locate O P fs stream a b).trackStartAbs = b) ∨
         (P.tool = .header ∧
           ((locate O P fs stream a b).body.length : Int) ≤ (locate O P fs stream a b).fields.trackOff)) :
    (processEntry O P fs stream a b).effect = Effect.none ∧
    (processEntry O P fs stream a b).result.corrupted = false := by
  unfold processEntry
  generalize locate O P fs stream a b = L at h ⊢
  cases hT : L.target with
  | none => simp only [hT]; simp
  | some sc =>
    obtain ⟨size, content⟩ := sc
    rcases h with ⟨ht, hb⟩ | ⟨ht, hb⟩
    · simp only [hT, ht, hb, correctWholeAt_end]
      simp
    · simp only [hT, ht, pyFrom_of_length_le _ _ hb, correctHeaderFile_nil_track]
      simp

end Pff.Run
