import Pff.Proofs.RSGuard
/-! Soundness of `ECCMan.decode` for an ARBITRARY third-party decoder (no contract W): a result of
the right lengths that passes `check`, from a received word within capacity of the original, IS
the original (facade level, generic field). -/
namespace Pff.RSProofs

open Pff.RS Pff.Facade Pff.GF Pff.RSSpec

set_option linter.unusedSectionVars false

variable {F : Type} [Field F] [DecidableEq F]

theorem errorsOutside_self {α : Type} [DecidableEq α] (w : List α) (l : List Nat) :
    errorsOutside w w l = 0 := by
  unfold errorsOutside
  simp

theorem errorsOutside_nil_eq_hdist {α : Type} [DecidableEq α] (word cw : List α)
    (h : word.length = cw.length) : errorsOutside word cw [] = hdist word cw := by
  rw [← correctedErrors_eq_errorsOutside _ _ _ h, correctedErrors_nil_eq_hdist _ _ h]

/-- prefixing the two words by (possibly different) prefixes of one length, positions shifted, can
only add disagreements -/
theorem errorsOutside_pad_le {α : Type} [DecidableEq α] (z z' a b : List α) (l : List Nat)
    (hz : z.length = z'.length) :
    errorsOutside a b l ≤ errorsOutside (z ++ a) (z' ++ b) (l.map (· + z.length)) := by
  unfold errorsOutside
  rw [List.length_append, List.range_add, List.filter_append, List.length_append, List.filter_map,
    List.length_map]
  refine Nat.le_trans (Nat.le_of_eq ?_) (Nat.le_add_left _ _)
  congr 1
  apply List.filter_congr
  intro j _
  have hmem : (z.length + j ∈ l.map (· + z.length)) ↔ j ∈ l := by
    constructor
    · intro h
      obtain ⟨x, hx, hxe⟩ := List.mem_map.mp h
      have : x = j := by omega
      exact this ▸ hx
    · intro h
      exact List.mem_map.mpr ⟨j, h, by omega⟩
  show _ = (decide (z.length + j ∉ l.map (· + z.length)) &&
    decide ((z ++ a)[z.length + j]? ≠ (z' ++ b)[z.length + j]?))
  rw [List.getElem?_append_right (Nat.le_add_right _ _),
    List.getElem?_append_right (by omega), Nat.add_sub_cancel_left,
    show z.length + j - z'.length = j by omega]
  simp only [hmem]

/-- the heart: two words of the right lengths, both codewords after padding, both within capacity
of the same received word for the same erasure list, coincide -/
theorem sound_key (c : Codec F) (hc : GoodCodec c)
    (msg : List F) (k : Nat) (hm : msg.length ≤ effK c k) (hk : effK c k ≤ c.n)
    (msg' ecc' : List F) (hl : msg'.length = msg.length) (he : ecc'.length = c.n - effK c k)
    (l : List Nat) (hnd : l.Nodup) (hlt : ∀ i ∈ l, i < (msg' ++ ecc').length)
    (hcap : 2 * errorsOutside (msg' ++ ecc') (msg ++ encode c msg k) l + l.length ≤ c.n - effK c k)
    (m'' e'' : List F) (hml : m''.length = msg.length) (hel : e''.length = c.n - effK c k)
    (hchk : check c m'' e'' k = true)
    (hg : 2 * errorsOutside (msg' ++ ecc') (m'' ++ e'') l + l.length ≤ c.n - effK c k) :
    m'' = msg ∧ e'' = encode c msg k := by
  have hlenc : (encode c msg k).length = c.n - effK c k := length_encode c hc msg k
  rw [check_eq, rpad_of_length _ _ _ hel, pad_fst, hml, List.append_assoc] at hchk
  have hcw := encode_codeword c hc msg k
  rw [pad_fst, List.append_assoc] at hcw
  have hz : (List.replicate (effK c k - msg.length) (0 : F)).length = effK c k - msg.length :=
    List.length_replicate
  have hshift : ∀ x : List F, errorsOutside
      (List.replicate (effK c k - msg.length) (0 : F) ++ (msg' ++ ecc'))
      (List.replicate (effK c k - msg.length) (0 : F) ++ x) (l.map (· + (effK c k - msg.length)))
      = errorsOutside (msg' ++ ecc') x l := by
    intro x
    have := errorsOutside_pad (List.replicate (effK c k - msg.length) (0 : F)) (msg' ++ ecc') x l
    rwa [hz] at this
  have hnd' : (l.map (· + (effK c k - msg.length))).Nodup :=
    hnd.map (fun a b h => Nat.add_right_cancel h)
  have hlt' : ∀ i ∈ l.map (· + (effK c k - msg.length)),
      i < (List.replicate (effK c k - msg.length) (0 : F) ++ (msg' ++ ecc')).length := by
    intro i hi
    obtain ⟨j, hj, rfl⟩ := List.mem_map.mp hi
    have := hlt j hj
    simp only [List.length_append, List.length_replicate] at this ⊢
    omega
  have heq := decode_unique c hc (c.n - effK c k)
    (List.replicate (effK c k - msg.length) (0 : F) ++ (msg' ++ ecc'))
    (List.replicate (effK c k - msg.length) (0 : F) ++ (m'' ++ e''))
    (List.replicate (effK c k - msg.length) (0 : F) ++ (msg ++ encode c msg k))
    (by simp only [List.length_append, List.length_replicate, hl, he]; omega)
    (by simp only [List.length_append, List.length_replicate, hml, hel]; omega)
    (by simp only [List.length_append, List.length_replicate, hlenc]; omega)
    hchk hcw (some (l.map (· + (effK c k - msg.length)))) false
    ⟨hnd', hlt', by
      simp only [Bool.false_eq_true, ↓reduceIte, List.length_map]; rw [hshift]; exact hg⟩
    ⟨hnd', hlt', by
      simp only [Bool.false_eq_true, ↓reduceIte, List.length_map]; rw [hshift]; exact hcap⟩
  have h2 := List.append_cancel_left heq
  exact List.append_inj h2 hml

/-- `C02_decode_sound` with the detected erasure list written out -/
theorem decode_sound (c : Codec F) (hc : GoodCodec c) (core : Core F)
    (msg : List F) (k : Nat) (hm : msg.length ≤ effK c k) (hk : effK c k ≤ c.n)
    (msg' ecc' : List F) (hl : msg'.length = msg.length) (he : ecc'.length = c.n - effK c k)
    (en : Bool) (ec : F) (oe : Bool)
    (hcap : if en || oe then
        2 * errorsOutside (msg' ++ ecc') (msg ++ encode c msg k)
            (if en || oe then (List.range (msg' ++ ecc').length).filter
              (fun i => (msg' ++ ecc')[i]? = some ec) else [])
          + (if en || oe then (List.range (msg' ++ ecc').length).filter
              (fun i => (msg' ++ ecc')[i]? = some ec) else []).length ≤ c.n - effK c k
      else 2 * hdist (msg' ++ ecc') (msg ++ encode c msg k) ≤ c.n - effK c k)
    (m'' e'' : List F) (hdec : decode core c msg' ecc' k en ec oe = .ok (m'', e''))
    (hml : m''.length = msg.length) (hel : e''.length = c.n - effK c k)
    (hchk : check c m'' e'' k = true) :
    m'' = msg ∧ e'' = encode c msg k := by
  have hlenc : (encode c msg k).length = c.n - effK c k := length_encode c hc msg k
  -- the detected erasure list, uniformly
  generalize hldef : (if en || oe then (List.range (msg' ++ ecc').length).filter
      (fun i => (msg' ++ ecc')[i]? = some ec) else []) = l at hcap
  have hnd : l.Nodup := by
    subst hldef; split
    · exact List.nodup_range.filter _
    · exact List.nodup_nil
  have hlt : ∀ i ∈ l, i < (msg' ++ ecc').length := by
    subst hldef; intro i hi; split at hi
    · exact List.mem_range.mp (List.mem_filter.mp hi).1
    · cases hi
  have hcap' : 2 * errorsOutside (msg' ++ ecc') (msg ++ encode c msg k) l + l.length
      ≤ c.n - effK c k := by
    cases hb : (en || oe)
    · rw [hb] at hcap hldef
      simp only [Bool.false_eq_true, ↓reduceIte] at hcap hldef
      subst hldef
      rw [errorsOutside_nil_eq_hdist _ _ (by simp [hl, he, hlenc])]
      simpa using hcap
    · rw [hb] at hcap
      simpa using hcap
  cases hprep : prepareDecode c msg' ecc' k en ec oe with
  | none =>
    unfold decode at hdec
    rw [hprep] at hdec
    simp only [Except.ok.injEq, Prod.mk.injEq] at hdec
    obtain ⟨rfl, rfl⟩ := hdec
    refine sound_key c hc msg k hm hk msg' ecc' hl he l hnd hlt hcap' msg' ecc' hml hel hchk ?_
    rw [errorsOutside_self]
    omega
  | some call =>
    obtain ⟨mr, er, h1, h2, h3⟩ :=
      decode_within_radius c core msg' ecc' k en ec oe call m'' e'' hprep hdec
    rw [prepareDecode_eq] at hprep
    have hcall := Option.some.inj ((ite_eq_iff.mp hprep).resolve_left (by simp)).2
    subst hcall
    simp only [pad_snd, pad_fst, rpad_of_length _ _ _ he, hl] at h1 h3
    have hE : ((if en || oe then some ((List.range (msg' ++ ecc').length).filter
          (fun i => (msg' ++ ecc')[i]? = some ec)) else none).map
          (fun l => l.map (· + (effK c k - msg.length)))).getD []
        = l.map (· + (effK c k - msg.length)) := by
      subst hldef
      cases (en || oe) <;> simp
    rw [hE] at h3
    subst h2
    by_cases hz : msg.length = 0
    · -- degenerate: empty message
      have hm0 : msg = [] := List.eq_nil_of_length_eq_zero hz
      have hm0'' : m'' = [] := List.eq_nil_of_length_eq_zero (hml.trans hz)
      refine ⟨hm0''.trans hm0.symm, ?_⟩
      have := check_unique c hc m'' e'' k (by rw [hml]; exact hm) hk hel hchk
      rw [this, hm0'', hm0]
    · have hmrl : mr.length = (effK c k - msg.length) + msg.length := by
        have := congrArg List.length h1
        rw [List.length_drop, hml] at this
        omega
      have hsplit : mr = mr.take (effK c k - msg.length) ++ m'' := by
        rw [h1]; exact (List.take_append_drop _ _).symm
      have htl : (mr.take (effK c k - msg.length)).length = effK c k - msg.length := by
        rw [List.length_take]; omega
      refine sound_key c hc msg k hm hk msg' ecc' hl he l hnd hlt hcap' m'' e'' hml hel hchk ?_
      have hle := errorsOutside_pad_le (List.replicate (effK c k - msg.length) (0 : F))
        (mr.take (effK c k - msg.length)) (msg' ++ ecc') (m'' ++ e'') l
        (by rw [List.length_replicate, htl])
      rw [List.length_replicate] at hle
      have hX : mr ++ e'' = mr.take (effK c k - msg.length) ++ (m'' ++ e'') := by
        rw [← List.append_assoc, ← hsplit]
      rw [hX, List.append_assoc, correctedErrors_eq_errorsOutside _ _ _
        (by simp only [List.length_append, List.length_replicate, htl, hl, he, hml, hel]),
        List.length_map] at h3
      omega

end Pff.RSProofs
