import Pff.Props.RSSpec
import Pff.Proofs.GF
import Pff.Proofs.RSCore
import Pff.Proofs.RSDist
/-! Helper lemmas for the Reed–Solomon layer (C02, C11, C12): field laws of GF(2^8) from the
tables, generator polynomial roots, encoders produce codewords, minimum distance, uniqueness. -/
namespace Pff.RSProofs

open Pff.RS Pff.Facade Pff.GF Pff.RSSpec Pff.GFProofs

/-- the field of codecs 1–3 -/
@[reducible] def fieldA : Field (Elt pA) := fieldOf pA factsA
/-- the field of codec 4 -/
@[reducible] def fieldB : Field (Elt pB) := fieldOf pB factsB

theorem goodCodec_of (p : Params) (H : TableFacts p) (c : Codec (Elt p)) (hpw : c.pw = Elt.gpow p)
    (halgo : c.algo = 1 ∨ c.algo = 2 ∨ c.algo = 3 ∨ c.algo = 4) (hn : c.n ≤ 255) :
    @GoodCodec (Elt p) (fieldOf p H) inferInstance c := by
  let _ := fieldOf p H
  refine ⟨elt_char2, halgo, ⟨Elt.gpow p 1, gpow_one_ne_zero H, ?_, ?_⟩, hn⟩
  · intro i; rw [hpw]; exact gpow_eq_pow H i
  · intro i j hi hj h
    have hi' := gpow_eq_pow H i
    have hj' := gpow_eq_pow H j
    exact gpow_inj H hi hj (by rw [hi', hj']; exact h)

/-! ### facade level, generic field -/
section Facade

set_option linter.unusedSectionVars false

variable {F : Type} [Field F] [DecidableEq F]

theorem _root_.Pff.RSSpec.GoodCodec.primPow {c : Codec F} (hc : GoodCodec c) : PrimPow c.pw := ⟨hc.char2, hc.prim⟩

theorem pad_fst (msg : List F) (k : Nat) :
    (pad msg k).1 = List.replicate (k - msg.length) 0 ++ msg := by
  unfold pad
  split
  · rfl
  · next h => simp [Nat.sub_eq_zero_of_le (Nat.le_of_not_lt h)]

theorem pad_snd (msg : List F) (k : Nat) : (pad msg k).2 = k - msg.length := by
  unfold pad
  split
  · rfl
  · next h => simp [Nat.sub_eq_zero_of_le (Nat.le_of_not_lt h)]

theorem length_pad_fst (msg : List F) (k : Nat) (h : msg.length ≤ k) :
    (pad msg k).1.length = k := by
  rw [pad_fst]; simp; omega

theorem rpad_eq (ecc : List F) (n k : Nat) :
    rpad ecc n k = ecc ++ List.replicate (n - k - ecc.length) 0 := by
  unfold rpad
  split
  · rfl
  · next h => simp [Nat.sub_eq_zero_of_le (Nat.le_of_not_lt h)]

theorem rpad_of_length (ecc : List F) (n k : Nat) (h : ecc.length = n - k) : rpad ecc n k = ecc := by
  rw [rpad_eq, h, Nat.sub_self]; simp

theorem encode_eq (c : Codec F) (msg : List F) (k : Nat) :
    encode c msg k = libParity c (effK c k) (pad msg (effK c k)).1 := rfl

theorem check_eq (c : Codec F) (msg ecc : List F) (k : Nat) :
    check c msg ecc k =
      rsCheck c.pw c.fcr (c.n - effK c k) ((pad msg (effK c k)).1 ++ rpad ecc c.n (effK c k)) := rfl

theorem libParity_isRem (char2 : ∀ a : F, a + a = 0) (c : Codec F) (k : Nat) (m : List F) :
    IsRem (genPoly c.pw c.fcr (c.n - k)) m (libParity c k m) := by
  obtain ⟨t, ht⟩ := genPoly_monic c.pw c.fcr (c.n - k)
  unfold libParity
  simp only [ht]
  split
  · exact longDivEncode_isRem char2 t m
  · split
    · exact fastModEncode_isRem char2 t m
    · exact lfsrEncode_isRem char2 t m

theorem length_encode (c : Codec F) (hc : GoodCodec c) (msg : List F) (k : Nat) :
    (encode c msg k).length = c.n - effK c k := by
  rw [encode_eq, (libParity_isRem hc.char2 c _ _).1, length_genPoly]; simp

theorem encode_codeword (c : Codec F) (hc : GoodCodec c) (msg : List F) (k : Nat) :
    rsCheck c.pw c.fcr (c.n - effK c k) ((pad msg (effK c k)).1 ++ encode c msg k) = true := by
  rw [rsCheck_iff]
  intro i hi
  exact (libParity_isRem hc.char2 c _ _).codeword hc.char2 (genPoly_root hc.char2 _ _ _ _ hi)

theorem check_encode (c : Codec F) (hc : GoodCodec c) (msg : List F) (k : Nat) :
    check c msg (encode c msg k) k = true := by
  rw [check_eq, rpad_of_length _ _ _ (length_encode c hc msg k)]
  exact encode_codeword c hc msg k

theorem check_unique (c : Codec F) (hc : GoodCodec c) (msg ecc : List F) (k : Nat)
    (hm : msg.length ≤ effK c k) (hk : effK c k ≤ c.n) (he : ecc.length = c.n - effK c k)
    (h : check c msg ecc k = true) : ecc = encode c msg k := by
  rw [check_eq, rpad_of_length _ _ _ he] at h
  refine systematic_unique hc.primPow c.fcr (c.n - effK c k) (pad msg (effK c k)).1 _ _ he
    (length_encode c hc msg k) ?_ h (encode_codeword c hc msg k)
  rw [length_pad_fst _ _ hm]
  have := hc.n_le
  omega

theorem goodCodec_algo {c : Codec F} (hc : GoodCodec c) (a : Nat) (ha : a = 1 ∨ a = 2 ∨ a = 3) :
    GoodCodec { c with algo := a } :=
  ⟨hc.char2, by rcases ha with h | h | h <;> simp [h], hc.prim, hc.n_le⟩

theorem encode_algo_irrelevant (c : Codec F) (hc : GoodCodec c) (msg : List F) (k : Nat)
    (hm : msg.length ≤ effK c k) (hk : effK c k ≤ c.n) (a : Nat) (ha : a = 1 ∨ a = 2 ∨ a = 3) :
    encode { c with algo := a } msg k = encode c msg k :=
  check_unique c hc msg _ k hm hk (length_encode _ (goodCodec_algo hc a ha) msg k)
    (check_encode _ (goodCodec_algo hc a ha) msg k)

theorem detects (c : Codec F) (hc : GoodCodec c) (msg : List F) (k : Nat)
    (hm : msg.length ≤ effK c k) (hk : effK c k ≤ c.n)
    (msg' ecc' : List F) (hl : msg'.length = msg.length) (he : ecc'.length = c.n - effK c k)
    (h1 : 1 ≤ hdist (msg' ++ ecc') (msg ++ encode c msg k))
    (h2 : hdist (msg' ++ ecc') (msg ++ encode c msg k) ≤ c.n - effK c k) :
    check c msg' ecc' k = false := by
  by_contra hne
  have ht : check c msg' ecc' k = true := by simpa using hne
  rw [check_eq, rpad_of_length _ _ _ he, pad_fst, hl] at ht
  have hcw := encode_codeword c hc msg k
  rw [pad_fst] at hcw
  have hlen : (List.replicate (effK c k - msg.length) (0 : F) ++ msg' ++ ecc').length = c.n := by
    simp [hl, he]; omega
  have := min_distance hc.primPow c.fcr (c.n - effK c k) _ _
    (by simp [hl, he, length_encode c hc msg k]) (by rw [hlen]; exact hc.n_le) ht hcw
    (by rw [List.append_assoc, List.append_assoc, hdist_append_left]; exact h2)
  rw [List.append_assoc, List.append_assoc] at this
  rw [List.append_cancel_left this, hdist_self] at h1
  omega

theorem truncated_parity (c : Codec F) (hc : GoodCodec c) (msg : List F) (k : Nat)
    (hm : msg.length ≤ effK c k) (hk : effK c k ≤ c.n) (j : Nat) (hj : j ≤ c.n - effK c k) :
    check c msg ((encode c msg k).take (c.n - effK c k - j)) k = true ↔
      ∀ x ∈ (encode c msg k).drop (c.n - effK c k - j), x = 0 := by
  have hlen := length_encode c hc msg k
  set enc := encode c msg k with henc
  set r := c.n - effK c k with hr
  have htl : (enc.take (r - j)).length = r - j := by simp [hlen]
  have hdl : (enc.drop (r - j)).length = j := by simp [hlen]; omega
  have hrp : rpad (enc.take (r - j)) c.n (effK c k) = enc.take (r - j) ++ List.replicate j 0 := by
    rw [rpad_eq, htl, ← hr]
    congr 2; omega
  have hsplit : enc.take (r - j) ++ enc.drop (r - j) = enc := List.take_append_drop _ _
  constructor
  · intro h
    have hu := check_unique c hc msg (enc.take (r - j) ++ List.replicate j 0) k hm hk
      (by simp [htl]; omega) (by rw [check_eq, rpad_of_length _ _ _ (by simp [htl]; omega)]
                                 rw [check_eq, hrp] at h; exact h)
    rw [← henc] at hu
    have : List.replicate j (0 : F) = enc.drop (r - j) := by
      have h3 : enc.take (r - j) ++ List.replicate j 0 = enc.take (r - j) ++ enc.drop (r - j) := by
        rw [hsplit]; exact hu
      exact List.append_cancel_left h3
    intro x hx
    rw [← this] at hx
    exact (List.mem_replicate.mp hx).2
  · intro h
    have : enc.drop (r - j) = List.replicate j 0 := by
      have := List.eq_replicate_of_mem h
      rwa [hdl] at this
    rw [check_eq, hrp, ← this, hsplit]
    exact encode_codeword c hc msg k

end Facade

end Pff.RSProofs
