import Pff.Model.Layout
/-! Helper lemmas for C10 (block layout). -/
namespace Pff.Layout

end Pff.Layout
