import Pff.Model.Layout
/-! Helper lemmas for C10 (block layout).  Core Lean only. -/
namespace Pff.Layout

/-! ## generic list facts -/

theorem slice_length (content : Bytes) (b : Block) :
    (slice content b).length = min b.len (content.length - b.off) := by
  simp only [slice, List.length_take, List.length_drop]

/-- reading `k` bytes at `c` is the slice of length `min k (n - c)` -/
theorem read_eq_slice (content : Bytes) (c k : Nat) :
    (content.drop c).take k = slice content ⟨c, min k (content.length - c), k⟩ := by
  simp only [slice]
  rw [List.take_eq_take_iff, List.length_drop]
  omega

/-- reading `k` bytes at `i` of the first `hs` bytes is the slice of length `min k (min hs n - i)` -/
theorem read_header_eq_slice (content : Bytes) (hs i k : Nat) :
    ((content.take hs).drop i).take k =
      slice content ⟨i, min k (min hs content.length - i), k⟩ := by
  simp only [slice]
  rw [List.drop_take, List.take_take, List.take_eq_take_iff, List.length_drop]
  omega

/-- the chunk `hsh ++ ecc` sitting at position `pre.length` of a track is read back exactly -/
theorem track_read (pre hsh ecc rest : Bytes) (hashLen eccLen : Nat)
    (hh : hsh.length = hashLen) (he : ecc.length = eccLen) :
    ((pre ++ ((hsh ++ ecc) ++ rest)).drop pre.length).take (hashLen + eccLen) = hsh ++ ecc := by
  rw [List.drop_left]
  apply List.take_left'
  simp only [List.length_append, hh, he]

theorem track_read_hash (pre hsh ecc rest : Bytes) (hashLen : Nat)
    (hh : hsh.length = hashLen) :
    ((pre ++ ((hsh ++ ecc) ++ rest)).drop pre.length).take hashLen = hsh := by
  rw [List.drop_left, List.append_assoc]
  exact List.take_left' hh

theorem track_read_ecc (pre hsh ecc rest : Bytes) (hashLen eccLen : Nat)
    (hh : hsh.length = hashLen) (he : ecc.length = eccLen) :
    ((pre ++ ((hsh ++ ecc) ++ rest)).drop (pre.length + hashLen)).take eccLen = ecc := by
  have h1 : pre ++ ((hsh ++ ecc) ++ rest) = (pre ++ hsh) ++ (ecc ++ rest) := by
    simp only [List.append_assoc]
  rw [h1, List.drop_left' (by simp only [List.length_append, hh])]
  exact List.take_left' he

/-! ## whole-file tool: generation layout -/

theorem layoutGen_nil_of_ge (kOf : Nat → Nat) (size : Nat) (fuel c : Nat) (h : size ≤ c) :
    layoutGen kOf size fuel c = [] := by
  cases fuel with
  | zero => rfl
  | succ fuel =>
    simp only [layoutGen]
    rw [if_neg (by omega)]

theorem layoutGen_cons (kOf : Nat → Nat) (size : Nat) (fuel c : Nat) (h : c < size) :
    layoutGen kOf size (fuel + 1) c =
      ⟨c, min (kOf c) (size - c), kOf c⟩ ::
        layoutGen kOf size fuel (c + min (kOf c) (size - c)) := by
  simp only [layoutGen]
  rw [if_pos h]

theorem layoutGen_tiles (kOf : Nat → Nat) (hk : ∀ x, 1 ≤ kOf x) (size : Nat) :
    ∀ fuel c, c ≤ size → size - c < fuel → Tiles (layoutGen kOf size fuel c) c size := by
  intro fuel
  induction fuel with
  | zero => intro c _ h; omega
  | succ fuel ih =>
    intro c hc hf
    by_cases h : c < size
    · rw [layoutGen_cons kOf size fuel c h]
      have := hk c
      refine ⟨rfl, ?_, ?_⟩
      · show 1 ≤ min (kOf c) (size - c)
        omega
      · show Tiles _ (c + min (kOf c) (size - c)) size
        apply ih <;> omega
    · rw [layoutGen_nil_of_ge kOf size _ c (by omega)]
      show c = size
      omega

/-- every generated block: own `k`, starts inside the file, length is `min k (remaining)` -/
theorem layoutGen_mem (kOf : Nat → Nat) (size : Nat) :
    ∀ fuel c b, b ∈ layoutGen kOf size fuel c →
      b.k = kOf b.off ∧ b.off < size ∧ b.len = min b.k (size - b.off) := by
  intro fuel
  induction fuel with
  | zero => intro c b hb; simp only [layoutGen, List.not_mem_nil] at hb
  | succ fuel ih =>
    intro c b hb
    by_cases h : c < size
    · rw [layoutGen_cons kOf size fuel c h, List.mem_cons] at hb
      rcases hb with rfl | hb
      · exact ⟨rfl, h, rfl⟩
      · exact ih _ b hb
    · rw [layoutGen_nil_of_ge kOf size _ c (by omega)] at hb
      simp only [List.not_mem_nil] at hb

/-! ## whole-file tool: reading back -/

/-- one iteration of `assemble` on a track whose chunk at `pre.length` is `hsh ++ ecc` -/
theorem assemble_step (kOf : Nat → Nat) (hashLen mbs : Nat) (content pre hsh ecc rest : Bytes)
    (fuel c : Nat) (hc : c < content.length) (hk : 1 ≤ kOf c)
    (hh : hsh.length = hashLen) (he : ecc.length = mbs - kOf c)
    (hpos : 1 ≤ hashLen + (mbs - kOf c)) :
    assemble kOf hashLen mbs content (pre ++ ((hsh ++ ecc) ++ rest)) (fuel + 1) c pre.length =
      ⟨c, slice content ⟨c, min (kOf c) (content.length - c), kOf c⟩, kOf c, hsh, ecc⟩ ::
        assemble kOf hashLen mbs content ((pre ++ (hsh ++ ecc)) ++ rest) fuel
          (c + min (kOf c) (content.length - c)) (pre ++ (hsh ++ ecc)).length := by
  have hlt : pre.length < (pre ++ ((hsh ++ ecc) ++ rest)).length := by
    simp only [List.length_append, hh, he]; omega
  have hmes := read_eq_slice content c (kOf c)
  have hlen : (slice content ⟨c, min (kOf c) (content.length - c), kOf c⟩).length =
      min (kOf c) (content.length - c) := by
    rw [slice_length]; show min (min _ _) (_ - c) = _; omega
  have hne : (slice content ⟨c, min (kOf c) (content.length - c), kOf c⟩).isEmpty = false := by
    cases hs : slice content ⟨c, min (kOf c) (content.length - c), kOf c⟩ with
    | nil => rw [hs] at hlen; simp only [List.length_nil] at hlen; omega
    | cons _ _ => rfl
  have hbuf := track_read pre hsh ecc rest hashLen (mbs - kOf c) hh he
  simp only [assemble]
  rw [if_pos hlt, hmes, hbuf, hne, hlen]
  have h1 : (hsh ++ ecc).take hashLen = hsh := List.take_left' hh
  have h2 : (hsh ++ ecc).drop hashLen = ecc := List.drop_left' hh
  simp only [Bool.false_eq_true, if_false, h1, h2, List.length_append, List.append_assoc]

theorem assemble_agree (kOf : Nat → Nat) (hk : ∀ x, 1 ≤ kOf x) (hashLen mbs : Nat)
    (H : Bytes → Bytes) (enc : Nat → Bytes → Bytes)
    (hH : ∀ m, (H m).length = hashLen)
    (henc : ∀ k m, 1 ≤ m.length → m.length ≤ k → (enc k m).length = mbs - k)
    (hpos : ∀ x, 1 ≤ hashLen + (mbs - kOf x))
    (content : Bytes) :
    ∀ fuel c pre,
      assemble kOf hashLen mbs content
          (pre ++ ((layoutGen kOf content.length fuel c).map
            (fun b => H (slice content b) ++ enc b.k (slice content b))).flatten) fuel c pre.length =
        (layoutGen kOf content.length fuel c).map
          (fun b => { off := b.off, msg := slice content b, k := b.k,
                      hash := H (slice content b), ecc := enc b.k (slice content b) }) := by
  intro fuel
  induction fuel with
  | zero => intro c pre; rfl
  | succ fuel ih =>
    intro c pre
    by_cases h : c < content.length
    · rw [layoutGen_cons kOf content.length fuel c h]
      simp only [List.map_cons, List.flatten_cons]
      have hkc := hk c
      have hlen : (slice content ⟨c, min (kOf c) (content.length - c), kOf c⟩).length =
          min (kOf c) (content.length - c) := by
        rw [slice_length]; show min (min _ _) (_ - c) = _; omega
      rw [assemble_step kOf hashLen mbs content pre _ _ _ fuel c h hkc (hH _)
        (henc _ _ (by omega) (by omega)) (hpos c)]
      rw [ih _ (pre ++ _)]
    · rw [layoutGen_nil_of_ge kOf content.length _ c (by omega)]
      simp only [List.map_nil, List.flatten_nil, List.append_nil, assemble]
      rw [if_neg (by omega)]

theorem sum_map_eq {α : Type} (l : List α) (f g : α → Nat) (h : ∀ a ∈ l, f a = g a) :
    (l.map f).sum = (l.map g).sum := by
  rw [List.map_congr_left h]

/-! ## header tool -/

theorem layoutHeader_nil_of_ge (k hs size : Nat) (fuel i : Nat) (h : min hs size ≤ i) :
    layoutHeader k hs size fuel i = [] := by
  cases fuel with
  | zero => rfl
  | succ fuel =>
    simp only [layoutHeader]
    rw [if_neg (by omega)]

theorem layoutHeader_cons (k hs size : Nat) (fuel i : Nat) (h : i < min hs size) :
    layoutHeader k hs size (fuel + 1) i =
      ⟨i, min k (min hs size - i), k⟩ :: layoutHeader k hs size fuel (i + k) := by
  simp only [layoutHeader]
  rw [if_pos h]

theorem layoutHeader_tiles (k hs size : Nat) (hk : 1 ≤ k) :
    ∀ fuel i, i ≤ min hs size → min hs size - i < fuel →
      Tiles (layoutHeader k hs size fuel i) i (min hs size) := by
  intro fuel
  induction fuel with
  | zero => intro i _ h; omega
  | succ fuel ih =>
    intro i hi hf
    by_cases h : i < min hs size
    · rw [layoutHeader_cons k hs size fuel i h]
      refine ⟨rfl, ?_, ?_⟩
      · show 1 ≤ min k (min hs size - i)
        omega
      · show Tiles _ (i + min k (min hs size - i)) (min hs size)
        by_cases h2 : i + k ≤ min hs size
        · have : min k (min hs size - i) = k := by omega
          rw [this]
          apply ih <;> omega
        · rw [layoutHeader_nil_of_ge k hs size _ _ (by omega)]
          show i + min k (min hs size - i) = min hs size
          omega
    · rw [layoutHeader_nil_of_ge k hs size _ i (by omega)]
      show i = min hs size
      omega

theorem layoutHeader_mem (k hs size : Nat) :
    ∀ fuel i b, b ∈ layoutHeader k hs size fuel i →
      b.k = k ∧ b.off < min hs size ∧ b.len = min k (min hs size - b.off) := by
  intro fuel
  induction fuel with
  | zero => intro i b hb; simp only [layoutHeader, List.not_mem_nil] at hb
  | succ fuel ih =>
    intro i b hb
    by_cases h : i < min hs size
    · rw [layoutHeader_cons k hs size fuel i h, List.mem_cons] at hb
      rcases hb with rfl | hb
      · exact ⟨rfl, h, rfl⟩
      · exact ih _ b hb
    · rw [layoutHeader_nil_of_ge k hs size _ i (by omega)] at hb
      simp only [List.not_mem_nil] at hb

theorem assembleHeader_step (k hashLen mbs hs : Nat) (content pre hsh ecc rest : Bytes)
    (fuel i : Nat) (hi : i < min hs content.length)
    (hh : hsh.length = hashLen) (he : ecc.length = mbs - k)
    (hpos : 1 ≤ hashLen + (mbs - k)) :
    assembleHeader k hashLen mbs hs content (pre ++ ((hsh ++ ecc) ++ rest)) (fuel + 1) i pre.length =
      ⟨i, slice content ⟨i, min k (min hs content.length - i), k⟩, k, hsh, ecc⟩ ::
        assembleHeader k hashLen mbs hs content ((pre ++ (hsh ++ ecc)) ++ rest) fuel
          (i + k) (pre ++ (hsh ++ ecc)).length := by
  have hlt : pre.length < (pre ++ ((hsh ++ ecc) ++ rest)).length := by
    simp only [List.length_append, hh, he]; omega
  have hcond : i < (content.take hs).length ∧ pre.length < (pre ++ ((hsh ++ ecc) ++ rest)).length := by
    refine ⟨?_, hlt⟩
    rw [List.length_take]; exact hi
  simp only [assembleHeader]
  rw [if_pos hcond, read_header_eq_slice, track_read_hash pre hsh ecc rest hashLen hh,
    track_read_ecc pre hsh ecc rest hashLen (mbs - k) hh he]
  simp only [List.length_append, List.append_assoc, hh, he, Nat.add_assoc]

theorem assembleHeader_agree (k hashLen mbs hs : Nat) (hk : 1 ≤ k)
    (H : Bytes → Bytes) (enc : Nat → Bytes → Bytes)
    (hH : ∀ m, (H m).length = hashLen)
    (henc : ∀ m, 1 ≤ m.length → m.length ≤ k → (enc k m).length = mbs - k)
    (hpos : 1 ≤ hashLen + (mbs - k))
    (content : Bytes) :
    ∀ fuel i pre,
      assembleHeader k hashLen mbs hs content
          (pre ++ ((layoutHeader k hs content.length fuel i).map
            (fun b => H (slice content b) ++ enc b.k (slice content b))).flatten) fuel i pre.length =
        (layoutHeader k hs content.length fuel i).map
          (fun b => { off := b.off, msg := slice content b, k := b.k,
                      hash := H (slice content b), ecc := enc b.k (slice content b) }) := by
  intro fuel
  induction fuel with
  | zero => intro i pre; rfl
  | succ fuel ih =>
    intro i pre
    by_cases h : i < min hs content.length
    · rw [layoutHeader_cons k hs content.length fuel i h]
      simp only [List.map_cons, List.flatten_cons]
      have hlen : (slice content ⟨i, min k (min hs content.length - i), k⟩).length =
          min k (min hs content.length - i) := by
        rw [slice_length]; show min (min _ _) (_ - i) = _; omega
      rw [assembleHeader_step k hashLen mbs hs content pre _ _ _ fuel i h (hH _)
        (henc _ (by omega) (by omega)) hpos]
      rw [ih _ (pre ++ _)]
    · rw [layoutHeader_nil_of_ge k hs content.length _ i (by omega)]
      simp only [List.map_nil, List.flatten_nil, List.append_nil, assembleHeader]
      rw [if_neg]
      rw [List.length_take]
      omega

end Pff.Layout
