import Pff.Proofs.RSCore
import Pff.Props.RSSpec
import Mathlib.LinearAlgebra.Vandermonde
import Mathlib.LinearAlgebra.Matrix.Nondegenerate
import Mathlib.Algebra.BigOperators.Fin
import Mathlib.Data.Fintype.Fin
/-!
Field-generic Reed–Solomon theory, part 2: the minimum distance.  A word of length `n ≤ 255` with at
most `r` non-zero symbols whose `r` consecutive syndromes vanish is the zero word (Vandermonde);
hence two words passing `rsCheck` at Hamming distance `≤ r` coincide.
-/
namespace Pff.RSProofs

open Pff.RS Pff.RSSpec Matrix Finset

set_option linter.unusedSectionVars false

variable {F : Type} [Field F] [DecidableEq F]

/-- Horner = sum of coefficient times power (index from the end). -/
theorem polyEval_eq_sum (w : List F) (x : F) :
    polyEval w x = ∑ i : Fin w.length, w[i] * x ^ (w.length - 1 - (i : ℕ)) := by
  induction w using List.reverseRecOn with
  | nil => simp
  | append_singleton w c ih =>
    rw [polyEval_append_singleton, ih]
    have hlen : (w ++ [c]).length = w.length + 1 := by simp
    rw [Finset.sum_mul]
    rw [← Fin.sum_congr' _ hlen.symm, Fin.sum_univ_castSucc]
    congr 1
    · apply Finset.sum_congr rfl
      intro i _
      simp only [Fin.val_cast, Fin.val_castSucc, Fin.getElem_fin]
      have hi : (i : ℕ) < w.length := i.2
      rw [List.getElem_append_left hi]
      have : w.length + 1 - 1 - (i : ℕ) = (w.length - 1 - (i : ℕ)) + 1 := by omega
      rw [hlen, this, pow_succ, mul_assoc]
    · simp [hlen]

theorem vandermonde_kernel_trivial {m : ℕ} (v c : Fin m → F)
    (hv : Function.Injective v)
    (h : ∀ j : Fin m, ∑ i, c i * v i ^ (j : ℕ) = 0) : c = 0 := by
  have hdet : (vandermonde v).det ≠ 0 := det_vandermonde_ne_zero_iff.mpr hv
  apply eq_zero_of_vecMul_eq_zero hdet
  funext j
  simp only [vecMul, dotProduct, vandermonde_apply, Pi.zero_apply]
  exact h j

/-- Core of the RS minimum distance: a word with at most `r` non-zero symbols whose `r`
consecutive syndromes vanish is the zero word. -/
theorem weight_le_syndromes_zero (w : List F) (α : F) (fcr r : ℕ)
    (hα0 : α ≠ 0)
    (hinj : ∀ i j, i < w.length → j < w.length → α ^ i = α ^ j → i = j)
    (hs : ∀ j, j < r → polyEval w (α ^ (j + fcr)) = 0)
    (hwt : (Finset.univ.filter (fun i : Fin w.length => w[i] ≠ 0)).card ≤ r) :
    ∀ i : Fin w.length, w[i] = 0 := by
  classical
  set n := w.length with hn
  set S := Finset.univ.filter (fun i : Fin n => w[i] ≠ 0) with hS
  set m := S.card with hm
  let e : Fin m ≃o S := S.orderIsoOfFin rfl
  let idx : Fin m → Fin n := fun l => (e l : Fin n)
  let v : Fin m → F := fun l => α ^ (n - 1 - (idx l : ℕ))
  let c : Fin m → F := fun l => w[idx l] * (v l) ^ fcr
  have hvinj : Function.Injective v := by
    intro a b hab
    have h1 := hinj _ _ (by have := (idx a).2; omega) (by have := (idx b).2; omega) hab
    have h2 : (idx a : ℕ) = idx b := by have := (idx a).2; have := (idx b).2; omega
    have h3 : idx a = idx b := Fin.ext h2
    have h4 : e a = e b := Subtype.ext h3
    exact e.injective h4
  have hsum : ∀ j : Fin m, ∑ l, c l * v l ^ (j : ℕ) = 0 := by
    intro j
    have hj : (j : ℕ) < r := lt_of_lt_of_le j.2 hwt
    have := hs j hj
    rw [polyEval_eq_sum] at this
    rw [← this]
    have hrestrict : ∑ i : Fin n, w[i] * (α ^ ((j:ℕ) + fcr)) ^ (n - 1 - (i:ℕ))
        = ∑ i ∈ S, w[i] * (α ^ ((j:ℕ) + fcr)) ^ (n - 1 - (i:ℕ)) := by
      symm
      apply Finset.sum_subset (Finset.subset_univ _)
      intro i _ hi
      have : w[i] = 0 := by
        by_contra hne
        exact hi (by rw [hS]; exact Finset.mem_filter.mpr ⟨Finset.mem_univ _, hne⟩)
      simp [this]
    rw [hrestrict, ← Finset.sum_coe_sort S]
    apply Fintype.sum_equiv e.toEquiv
    intro l
    simp only [c, v, idx, RelIso.coe_fn_toEquiv]
    rw [mul_assoc, ← pow_add, ← pow_mul, ← pow_mul]
    congr 2
    ring
  have hc := vandermonde_kernel_trivial v c hvinj hsum
  have hm0 : m = 0 := by
    by_contra hne
    have hpos : 0 < m := Nat.pos_of_ne_zero hne
    let l : Fin m := ⟨0, hpos⟩
    have hcl : c l = 0 := congrFun hc l
    have hmem : (idx l) ∈ S := (e l).2
    have hwne : w[idx l] ≠ 0 := by
      rw [hS] at hmem; exact (Finset.mem_filter.mp hmem).2
    have hvne : (v l) ^ fcr ≠ 0 := pow_ne_zero _ (pow_ne_zero _ hα0)
    exact (mul_ne_zero hwne hvne) hcl
  intro i
  by_contra hne
  have : i ∈ S := by rw [hS]; exact Finset.mem_filter.mpr ⟨Finset.mem_univ _, hne⟩
  have hcard : 0 < S.card := Finset.card_pos.mpr ⟨i, this⟩
  omega

/-- number of non-zero symbols, list version -/
theorem card_support (w : List F) :
    (Finset.univ.filter (fun i : Fin w.length => w[i] ≠ 0)).card
      = w.countP (fun x => decide (x ≠ 0)) := by
  induction w with
  | nil => simp
  | cons a w ih =>
    refine (Fin.card_filter_univ_succ' (n := w.length) (fun i => (a :: w)[i] ≠ 0)).trans ?_
    rw [List.countP_cons]
    simp only [Fin.getElem_fin, Fin.val_zero, List.getElem_cons_zero, Fin.val_succ,
      List.getElem_cons_succ]
    simp only [Fin.getElem_fin] at ih
    rw [ih]
    by_cases h : a = 0 <;> simp [h, add_comm]

/-! ### Hamming distance -/
section Hdist
variable {α : Type} [DecidableEq α]

theorem hdist_cons_cons (x y : α) (xs ys : List α) :
    hdist (x :: xs) (y :: ys) = (if x = y then 0 else 1) + hdist xs ys := rfl

@[simp] theorem hdist_nil_left (b : List α) : hdist ([] : List α) b = 0 := rfl
@[simp] theorem hdist_nil_right (a : List α) : hdist a ([] : List α) = 0 := by cases a <;> rfl

@[simp] theorem hdist_self (a : List α) : hdist a a = 0 := by
  induction a with
  | nil => rfl
  | cons x xs ih => rw [hdist_cons_cons, ih]; simp

theorem hdist_comm (a b : List α) : hdist a b = hdist b a := by
  induction a generalizing b with
  | nil => simp
  | cons x xs ih => cases b with
    | nil => simp
    | cons y ys => rw [hdist_cons_cons, hdist_cons_cons, ih ys]; simp only [eq_comm]

theorem hdist_append (a a' b b' : List α) (h : a.length = a'.length) :
    hdist (a ++ b) (a' ++ b') = hdist a a' + hdist b b' := by
  induction a generalizing a' with
  | nil => cases a' with
    | nil => simp
    | cons y ys => simp at h
  | cons x xs ih => cases a' with
    | nil => simp at h
    | cons y ys =>
      rw [List.cons_append, List.cons_append, hdist_cons_cons, hdist_cons_cons,
        ih ys (by simpa using h), Nat.add_assoc]

theorem hdist_append_left (z a b : List α) : hdist (z ++ a) (z ++ b) = hdist a b := by
  rw [hdist_append _ _ _ _ rfl, hdist_self, Nat.zero_add]

theorem hdist_append_right (a b z : List α) (h : a.length = b.length) :
    hdist (a ++ z) (b ++ z) = hdist a b := by
  rw [hdist_append _ _ _ _ h, hdist_self, Nat.add_zero]

theorem eq_of_hdist_eq_zero (a b : List α) (h : a.length = b.length) (h0 : hdist a b = 0) :
    a = b := by
  induction a generalizing b with
  | nil => cases b with
    | nil => rfl
    | cons y ys => simp at h
  | cons x xs ih => cases b with
    | nil => simp at h
    | cons y ys =>
      rw [hdist_cons_cons] at h0
      by_cases hxy : x = y
      · rw [if_pos hxy, Nat.zero_add] at h0
        rw [hxy, ih ys (by simpa using h) h0]
      · rw [if_neg hxy] at h0; omega

theorem hdist_triangle (a b c : List α) (hab : a.length = b.length) (hbc : b.length = c.length) :
    hdist a c ≤ hdist a b + hdist b c := by
  induction a generalizing b c with
  | nil => simp
  | cons x xs ih => cases b with
    | nil => simp at hab
    | cons y ys => cases c with
      | nil => simp at hbc
      | cons z zs =>
        have := ih ys zs (by simpa using hab) (by simpa using hbc)
        simp only [hdist_cons_cons]
        by_cases h1 : x = y <;> by_cases h2 : y = z <;> by_cases h3 : x = z <;>
          simp [h1, h2, h3] <;> omega

end Hdist

theorem countP_addLists (char2 : ∀ a : F, a + a = 0) (a b : List F) (h : a.length = b.length) :
    (addLists a b).countP (fun x => decide (x ≠ 0)) = hdist a b := by
  induction a generalizing b with
  | nil => cases b with
    | nil => rfl
    | cons y ys => simp at h
  | cons x xs ih => cases b with
    | nil => simp at h
    | cons y ys =>
      rw [addLists_cons_cons, List.countP_cons, hdist_cons_cons, ih ys (by simpa using h),
        Nat.add_comm]
      congr 1
      by_cases hxy : x = y
      · simp [hxy, char2]
      · have : x + y ≠ 0 := fun h0 => hxy (eq_of_add_eq_zero char2 h0)
        simp [hxy, this]

theorem rsCheck_iff (pw : ℕ → F) (fcr r : ℕ) (w : List F) :
    rsCheck pw fcr r w = true ↔ ∀ i, i < r → polyEval w (pw (i + fcr)) = 0 := by
  unfold rsCheck syndromes
  simp [List.all_eq_true]

/-- what a `GoodCodec` provides about its generator -/
structure PrimPow (pw : ℕ → F) : Prop where
  char2 : ∀ a : F, a + a = 0
  prim : ∃ α : F, α ≠ 0 ∧ (∀ i, pw i = α ^ i) ∧
    (∀ i j, i < 255 → j < 255 → α ^ i = α ^ j → i = j)

/-- **minimum distance**: two words of the same length `≤ 255` with `r` vanishing syndromes each,
differing in at most `r` positions, coincide -/
theorem min_distance {pw : ℕ → F} (hp : PrimPow pw) (fcr r : ℕ)
    (a b : List F) (hlen : a.length = b.length) (hn : a.length ≤ 255)
    (ha : rsCheck pw fcr r a = true) (hb : rsCheck pw fcr r b = true) (hd : hdist a b ≤ r) :
    a = b := by
  obtain ⟨α, hα0, hpw, hinj⟩ := hp.prim
  have hl : (addLists a b).length = a.length := length_addLists a b hlen
  have hw := weight_le_syndromes_zero (addLists a b) α fcr r hα0
    (fun i j hi hj => hinj i j (by omega) (by omega))
    (fun j hj => by
      rw [← hpw, polyEval_addLists _ _ hlen, (rsCheck_iff _ _ _ _).1 ha j hj,
        (rsCheck_iff _ _ _ _).1 hb j hj, add_zero])
    (by rw [card_support, countP_addLists hp.char2 _ _ hlen]; exact hd)
  apply eq_of_hdist_eq_zero _ _ hlen
  rw [← countP_addLists hp.char2 a b hlen, ← card_support, Finset.card_eq_zero,
    Finset.filter_eq_empty_iff]
  intro i _
  simpa using hw i

/-- **uniqueness of the systematic parity** -/
theorem systematic_unique {pw : ℕ → F} (hp : PrimPow pw) (fcr r : ℕ)
    (m p1 p2 : List F) (h1 : p1.length = r) (h2 : p2.length = r) (hn : m.length + r ≤ 255)
    (hc1 : rsCheck pw fcr r (m ++ p1) = true) (hc2 : rsCheck pw fcr r (m ++ p2) = true) :
    p1 = p2 := by
  have := min_distance hp fcr r (m ++ p1) (m ++ p2) (by simp [h1, h2]) (by simp [h1]; omega)
    hc1 hc2 (by
      rw [hdist_append_left]
      -- hdist ≤ length
      have : ∀ (a b : List F), hdist a b ≤ a.length := by
        intro a
        induction a with
        | nil => simp
        | cons x xs ih =>
          intro b; cases b with
          | nil => simp
          | cons y ys =>
            rw [hdist_cons_cons]; have := ih ys; simp only [List.length_cons]; split <;> omega
      exact h1 ▸ this p1 p2)
  exact List.append_cancel_left this

end Pff.RSProofs
