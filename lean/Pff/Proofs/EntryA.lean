import Pff.Model.Entry
import Pff.Props.C10
/-! Helper lemmas for C09 (entry metadata). -/
namespace Pff.Entry.A
open Pff.Entry Pff.Ecc Pff.Layout

end Pff.Entry.A
