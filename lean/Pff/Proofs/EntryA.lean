import Pff.Model.Entry
import Pff.Props.C10
/-! Helper lemmas for C09 (entry metadata).  Core Lean only. -/
namespace Pff.Entry.A
open Pff.Entry Pff.Ecc Pff.Layout

/-! ## constants -/

theorem delim_eq : delim = [250, 255, 250, 255, 250] := rfl
theorem delim_length : delim.length = 5 := rfl
theorem marker_length : marker.length = 10 := rfl

/-! ## size text -/

theorem isDigit_iff (c : Nat) : isDigit c = true ↔ 48 ≤ c ∧ c ≤ 57 := by
  simp only [isDigit, Bool.and_eq_true, decide_eq_true_eq]

theorem isSpace_of_isDigit (c : Nat) (h : isDigit c = true) : isSpace c = false := by
  rw [isDigit_iff] at h
  simp only [isSpace, Bool.or_eq_false_iff, Bool.and_eq_false_iff, decide_eq_false_iff_not]
  omega

theorem digitsRev_digits : ∀ fuel n, ∀ c ∈ digitsRev fuel n, isDigit c = true := by
  intro fuel
  induction fuel with
  | zero => intro n c hc; simp only [digitsRev, List.not_mem_nil] at hc
  | succ fuel ih =>
    intro n c hc
    simp only [digitsRev] at hc
    split at hc
    · simp only [List.mem_singleton] at hc
      rw [isDigit_iff]; omega
    · rw [List.mem_cons] at hc
      rcases hc with rfl | hc
      · rw [isDigit_iff]; omega
      · exact ih _ c hc

theorem digitsRev_ne_nil (fuel n : Nat) : digitsRev (fuel + 1) n ≠ [] := by
  simp only [digitsRev]
  split <;> exact List.cons_ne_nil _ _

/-- value of a digit string, most significant digit first -/
def dval (acc : Nat) (ds : List Nat) : Nat := ds.foldl (fun a c => a * 10 + (c - 48)) acc

theorem digitsRev_val : ∀ fuel n, n < fuel →
    (digitsRev fuel n).foldr (fun c a => a * 10 + (c - 48)) 0 = n := by
  intro fuel
  induction fuel with
  | zero => intro n h; omega
  | succ fuel ih =>
    intro n h
    simp only [digitsRev]
    split
    · simp only [List.foldr_cons, List.foldr_nil]; omega
    · simp only [List.foldr_cons]
      rw [ih (n / 10) (by omega)]
      omega

theorem digitsVal_digits : ∀ (ds : List Nat) (prev : Bool) (acc : Nat),
    (∀ c ∈ ds, isDigit c = true) → (ds ≠ [] ∨ prev = true) →
    digitsVal ds prev acc = some (dval acc ds) := by
  intro ds
  induction ds with
  | nil =>
    intro prev acc _ h
    rcases h with h | h
    · exact absurd rfl h
    · simp only [digitsVal, h, if_true, dval, List.foldl_nil]
  | cons c cs ih =>
    intro prev acc hall _
    have hc : isDigit c = true := hall c (List.mem_cons_self ..)
    simp only [digitsVal, hc, if_true]
    rw [ih true _ (fun x hx => hall x (List.mem_cons_of_mem _ hx)) (Or.inr rfl)]
    simp only [dval, List.foldl_cons]

theorem dropWhile_isSpace_digits (l : List Nat) (hall : ∀ c ∈ l, isDigit c = true) :
    l.dropWhile isSpace = l := by
  cases l with
  | nil => rfl
  | cons c cs =>
    rw [List.dropWhile_cons, isSpace_of_isDigit c (hall c (List.mem_cons_self ..))]
    simp only [Bool.false_eq_true, if_false]

theorem pyInt_digits (l : List Nat) (hne : l ≠ []) (hall : ∀ c ∈ l, isDigit c = true) :
    pyInt l = some ((dval 0 l : Nat) : Int) := by
  have h1 : l.dropWhile isSpace = l := dropWhile_isSpace_digits l hall
  have h2 : l.reverse.dropWhile isSpace = l.reverse :=
    dropWhile_isSpace_digits _ (fun c hc => hall c (List.mem_reverse.mp hc))
  have hv := digitsVal_digits l false 0 hall (Or.inl hne)
  simp only [pyInt, h1, h2, List.reverse_reverse]
  cases l with
  | nil => exact absurd rfl hne
  | cons c cs =>
    have hc := (isDigit_iff c).mp (hall c (List.mem_cons_self ..))
    have h45 : ¬ c = 45 := by omega
    have h43 : ¬ c = 43 := by omega
    simp only [h45, h43, if_false, hv]
    rfl

theorem digitsOf_ne_nil (n : Nat) : digitsOf n ≠ [] := by
  simp only [digitsOf, ne_eq, List.reverse_eq_nil_iff]
  exact digitsRev_ne_nil n n

theorem digitsOf_digits (n : Nat) : ∀ c ∈ digitsOf n, isDigit c = true := by
  intro c hc
  simp only [digitsOf, List.mem_reverse] at hc
  exact digitsRev_digits _ _ c hc

theorem dval_digitsOf (n : Nat) : dval 0 (digitsOf n) = n := by
  simp only [dval, digitsOf, List.foldl_reverse]
  exact digitsRev_val (n + 1) n (by omega)

/-! ## `find` and the field splitting -/

theorem isPrefixOf_delim_iff (l : Bytes) : delim.isPrefixOf l = true ↔ l.take 5 = delim := by
  rw [List.isPrefixOf_iff_prefix, List.prefix_iff_eq_take, delim_length]
  exact eq_comm

/-- whether a delimiter starts at `i < |f|` only depends on `f ++ delim` -/
theorem delim_local (f rest : Bytes) (i : Nat) (hi : i < f.length) :
    delim.isPrefixOf ((f ++ (delim ++ rest)).drop i) = delim.isPrefixOf ((f ++ delim).drop i) := by
  rw [Bool.eq_iff_iff, isPrefixOf_delim_iff, isPrefixOf_delim_iff]
  have h : f ++ (delim ++ rest) = (f ++ delim) ++ rest := by simp only [List.append_assoc]
  rw [h, List.drop_append_of_le_length (by simp only [List.length_append]; omega),
    List.take_append_of_le_length
      (by simp only [List.length_drop, List.length_append, delim_length]; omega)]

theorem find_eq_some (sub buf : Bytes) (b i : Nat) (hbi : b ≤ i) (hi : i ≤ buf.length)
    (hp : sub.isPrefixOf (buf.drop i) = true)
    (hn : ∀ j, b ≤ j → j < i → sub.isPrefixOf (buf.drop j) = false) :
    Pff.Scan.find sub buf b = some i := by
  unfold Pff.Scan.find
  rw [List.find?_range'_eq_some]
  refine ⟨hp, ?_, ?_⟩
  · rw [List.mem_range'_1]; omega
  · intro j h1 h2; rw [hn j h1 h2]; rfl

/-- a field `f` without a delimiter start, followed by a delimiter: searching from the start of
the field finds the delimiter right after it -/
theorem find_field (pre f rest : Bytes)
    (hf : ∀ i, i < f.length → ¬ delim.isPrefixOf ((f ++ delim).drop i) = true) :
    Pff.Scan.find delim (pre ++ (f ++ (delim ++ rest))) pre.length = some (pre.length + f.length) := by
  apply find_eq_some
  · omega
  · simp only [List.length_append]; omega
  · have h : pre ++ (f ++ (delim ++ rest)) = (pre ++ f) ++ (delim ++ rest) := by
      simp only [List.append_assoc]
    rw [h, List.drop_left' (by simp only [List.length_append]), List.isPrefixOf_iff_prefix]
    exact List.prefix_append _ _
  · intro j h1 h2
    obtain ⟨j', rfl⟩ := Nat.exists_eq_add_of_le h1
    rw [← List.drop_drop, List.drop_left, delim_local f rest j' (by omega)]
    have := hf j' (by omega)
    simpa only [Bool.not_eq_true] using this

theorem pyFind_field (e pre f rest : Bytes) (start : Int)
    (he : e = pre ++ (f ++ (delim ++ rest))) (hs : start = (pre.length : Int))
    (hf : ∀ i, i < f.length → ¬ delim.isPrefixOf ((f ++ delim).drop i) = true) :
    pyFind delim e start = ((pre.length + f.length : Nat) : Int) := by
  subst he hs
  have h : ¬ ((pre.length : Int) < 0) := by omega
  simp only [pyFind, h, if_false, Int.toNat_natCast, find_field pre f rest hf]

theorem pySlice_field (e pre f rest : Bytes) (a b : Int)
    (he : e = pre ++ (f ++ rest)) (ha : a = (pre.length : Int))
    (hb : b = ((pre.length + f.length : Nat) : Int)) : pySlice e a b = f := by
  subst he ha hb
  have h1 : ¬ ((pre.length : Int) < 0) := by omega
  have h2 : ¬ (((pre.length + f.length : Nat) : Int) < 0) := by omega
  simp only [pySlice, pyBound, h1, h2, if_false, Int.toNat_natCast, List.length_append]
  have h3 : min pre.length (pre.length + (f.length + rest.length)) = pre.length := by omega
  have h4 : min (pre.length + f.length) (pre.length + (f.length + rest.length)) - pre.length
      = f.length := by omega
  rw [h3, h4, List.drop_left, List.take_left]

theorem stripDelims_of_not_prefix (fuel : Nat) (e : Bytes) (h : delim.isPrefixOf e = false) :
    stripDelims fuel e = e := by
  cases fuel with
  | zero => rfl
  | succ fuel => simp only [stripDelims, h, Bool.false_and, Bool.false_eq_true, if_false]

theorem entryFields_eq (e0 : Bytes) (a b c d' : Int) (hstrip : stripDelims e0.length e0 = e0)
    (h1 : pyFind delim e0 0 = a) (h2 : pyFind delim e0 (a + (delim.length : Int)) = b)
    (h3 : pyFind delim e0 (b + (delim.length : Int)) = c)
    (h4 : pyFind delim e0 (c + (delim.length : Int)) = d')
    (ha0 : ¬ a < 0) (hb0 : ¬ b < 0) (hc0 : ¬ c < 0) (hd0 : ¬ d' < 0) :
    entryFields e0 =
      { path := pySlice e0 0 a, sizeRaw := pySlice e0 (a + (delim.length : Int)) b,
        pathEcc := pySlice e0 (b + (delim.length : Int)) c,
        sizeEcc := pySlice e0 (c + (delim.length : Int)) d',
        trackOff := d' + (delim.length : Int), stripped := 0 } := by
  simp only [entryFields, hstrip, h1, h2, h3, h4, Nat.sub_self, ha0, hb0, hc0, hd0, or_self, if_false]

theorem entryFields_gen (path sizeTxt pathEcc sizeEcc track : Bytes) (hp : path ≠ [])
    (c1 : ∀ i, i < path.length → ¬ delim.isPrefixOf ((path ++ delim).drop i) = true)
    (c2 : ∀ i, i < sizeTxt.length → ¬ delim.isPrefixOf ((sizeTxt ++ delim).drop i) = true)
    (c3 : ∀ i, i < pathEcc.length → ¬ delim.isPrefixOf ((pathEcc ++ delim).drop i) = true)
    (c4 : ∀ i, i < sizeEcc.length → ¬ delim.isPrefixOf ((sizeEcc ++ delim).drop i) = true) :
    entryFields (path ++ delim ++ sizeTxt ++ delim ++ pathEcc ++ delim ++ sizeEcc ++ delim ++ track) =
      { path := path, sizeRaw := sizeTxt, pathEcc := pathEcc, sizeEcc := sizeEcc,
        trackOff := ((path.length + delim.length + sizeTxt.length + delim.length + pathEcc.length
                      + delim.length + sizeEcc.length + delim.length : Nat) : Int),
        stripped := 0 } := by
  generalize he : path ++ delim ++ sizeTxt ++ delim ++ pathEcc ++ delim ++ sizeEcc ++ delim ++ track = e
  -- the four decompositions
  have e1 : e = [] ++ (path ++ (delim ++ (sizeTxt ++ delim ++ pathEcc ++ delim ++ sizeEcc ++ delim ++ track))) := by
    rw [← he]; simp only [List.append_assoc, List.nil_append]
  have e2 : e = (path ++ delim) ++ (sizeTxt ++ (delim ++ (pathEcc ++ delim ++ sizeEcc ++ delim ++ track))) := by
    rw [← he]; simp only [List.append_assoc]
  have e3 : e = (path ++ delim ++ sizeTxt ++ delim) ++ (pathEcc ++ (delim ++ (sizeEcc ++ delim ++ track))) := by
    rw [← he]; simp only [List.append_assoc]
  have e4 : e = (path ++ delim ++ sizeTxt ++ delim ++ pathEcc ++ delim) ++ (sizeEcc ++ (delim ++ track)) := by
    rw [← he]; simp only [List.append_assoc]
  have hd := delim_length
  have f1 := pyFind_field e _ _ _ 0 e1 (by simp only [List.length_nil]; rfl) c1
  have f2 := pyFind_field e _ _ _ (((([] : Bytes).length + path.length : Nat) : Int) + (delim.length : Int)) e2
    (by simp only [List.length_append, List.length_nil]; omega) c2
  have f3 := pyFind_field e _ _ _ ((((path ++ delim).length + sizeTxt.length : Nat) : Int) + (delim.length : Int)) e3
    (by simp only [List.length_append]; omega) c3
  have f4 := pyFind_field e _ _ _
    ((((path ++ delim ++ sizeTxt ++ delim).length + pathEcc.length : Nat) : Int) + (delim.length : Int)) e4
    (by simp only [List.length_append]; omega) c4
  have hstrip : stripDelims e.length e = e := by
    apply stripDelims_of_not_prefix
    have hpl : 0 < path.length := List.length_pos_iff.mpr hp
    have := c1 0 hpl
    have hl := delim_local path (sizeTxt ++ delim ++ pathEcc ++ delim ++ sizeEcc ++ delim ++ track) 0 hpl
    rw [List.drop_zero, List.drop_zero] at hl
    rw [List.drop_zero] at this
    rw [e1, List.nil_append, hl]
    simpa only [Bool.not_eq_true] using this
  rw [entryFields_eq e _ _ _ _ hstrip f1 f2 f3 f4 (by omega) (by omega) (by omega) (by omega)]
  rw [pySlice_field e [] path _ 0 _ e1 rfl rfl]
  rw [pySlice_field e (path ++ delim) sizeTxt _ _ _ e2
    (by simp only [List.length_append, List.length_nil]; omega) rfl]
  rw [pySlice_field e (path ++ delim ++ sizeTxt ++ delim) pathEcc _ _ _ e3
    (by simp only [List.length_append]; omega) rfl]
  rw [pySlice_field e (path ++ delim ++ sizeTxt ++ delim ++ pathEcc ++ delim) sizeEcc _ _ _ e4
    (by simp only [List.length_append]; omega) rfl]
  have ht : (((path ++ delim ++ sizeTxt ++ delim ++ pathEcc ++ delim).length + sizeEcc.length : Nat) : Int)
      + (delim.length : Int) =
      ((path.length + delim.length + sizeTxt.length + delim.length + pathEcc.length
                      + delim.length + sizeEcc.length + delim.length : Nat) : Int) := by
    simp only [List.length_append]; omega
  rw [ht]

/-! ## intra-ecc: undamaged round trip -/

theorem tiles_le : ∀ (L : List Block) (s e : Nat), Tiles L s e → s ≤ e := by
  intro L
  induction L with
  | nil => intro s e h; simp only [Tiles] at h; omega
  | cons b bs ih =>
    intro s e h
    simp only [Tiles] at h
    have := ih _ _ h.2.2
    omega

/-- the slices of a tiling of `[s, e)` concatenate to that part of the content -/
theorem tiles_flatten (content : Bytes) : ∀ (L : List Block) (s e : Nat), Tiles L s e →
    (L.map (slice content)).flatten = (content.drop s).take (e - s) := by
  intro L
  induction L with
  | nil =>
    intro s e h
    simp only [Tiles] at h
    subst h
    simp only [List.map_nil, List.flatten_nil, Nat.sub_self, List.take_zero]
  | cons b bs ih =>
    intro s e h
    simp only [Tiles] at h
    obtain ⟨hoff, _, ht⟩ := h
    have hle := tiles_le _ _ _ ht
    have he : e - s = b.len + (e - (s + b.len)) := by omega
    simp only [List.map_cons, List.flatten_cons]
    rw [ih _ _ ht, he, List.take_add, List.drop_drop]
    simp only [slice, hoff]

theorem layoutGen_eq_header (k n : Nat) : ∀ fuel c,
    layoutGen (fun _ => k) n fuel c = layoutHeader k n n fuel c := by
  intro fuel
  induction fuel with
  | zero => intro c; rfl
  | succ fuel ih =>
    intro c
    by_cases h : c < n
    · rw [layoutGen_cons _ n fuel c h, layoutHeader_cons k n n fuel c (by omega), Nat.min_self]
      by_cases h2 : c + k ≤ n
      · have hm : min k (n - c) = k := by omega
        rw [hm, ih]
      · rw [layoutGen_nil_of_ge _ n fuel _ (by omega),
          layoutHeader_nil_of_ge k n n fuel _ (by omega)]
    · rw [layoutGen_nil_of_ge _ n _ c (by omega), layoutHeader_nil_of_ge k n n _ c (by omega)]

/-- the blocks both tools assemble from an undamaged field and its intra-ecc -/
def cleanBlocks (enc : Nat → Bytes → Bytes) (k : Nat) (field : Bytes) : List AsmBlock :=
  (layoutHeader k field.length field.length (field.length + 1) 0).map
    (fun b => { off := b.off, msg := slice field b, k := k, hash := [], ecc := enc k (slice field b) })

theorem intraEcc_eq_header (enc : Nat → Bytes → Bytes) (k : Nat) (field : Bytes) :
    intraEcc enc k field = genTrackHeader (fun _ => []) enc k field.length field := by
  unfold intraEcc genTrackHeader
  congr 1
  apply List.map_congr_left
  intro b hb
  have h := layoutHeader_mem k field.length field.length _ _ b hb
  rw [h.1, List.nil_append]

theorem assembleHeader_clean (enc : Nat → Bytes → Bytes) (k mbs : Nat) (hk : 1 ≤ k)
    (hpar : 1 ≤ mbs - k)
    (henc : ∀ m : Bytes, 1 ≤ m.length → m.length ≤ k → (enc k m).length = mbs - k) (field : Bytes) :
    assembleHeader k 0 mbs field.length field (intraEcc enc k field) (field.length + 1) 0 0 =
      cleanBlocks enc k field := by
  rw [intraEcc_eq_header,
    C10_agree_header k 0 mbs field.length hk (fun _ => []) enc (fun _ => rfl) henc (by omega) field]
  unfold cleanBlocks
  apply List.map_congr_left
  intro b hb
  have h := layoutHeader_mem k field.length field.length _ _ b hb
  rw [h.1]

theorem assemble_clean (enc : Nat → Bytes → Bytes) (k mbs : Nat) (hk : 1 ≤ k)
    (hpar : 1 ≤ mbs - k)
    (henc : ∀ m : Bytes, 1 ≤ m.length → m.length ≤ k → (enc k m).length = mbs - k) (field : Bytes) :
    assemble (fun _ => k) 0 mbs field (intraEcc enc k field) (field.length + 1) 0 0 =
      cleanBlocks enc k field := by
  -- an encoder with the right parity length at every `k'`, equal to `enc` at `k`
  let enc' : Nat → Bytes → Bytes :=
    fun k' m => if k' = k then enc k m else List.replicate (mbs - k') 0
  have henc' : ∀ k' (m : Bytes), 1 ≤ m.length → m.length ≤ k' → (enc' k' m).length = mbs - k' := by
    intro k' m h1 h2
    show (if k' = k then enc k m else List.replicate (mbs - k') 0).length = mbs - k'
    split
    · next h => subst h; exact henc m h1 h2
    · exact List.length_replicate
  have htrack : intraEcc enc k field = genTrack (fun _ => []) enc' (fun _ => k) field := by
    unfold intraEcc genTrack
    rw [layoutGen_eq_header]
    congr 1
    apply List.map_congr_left
    intro b hb
    have h := layoutHeader_mem k field.length field.length _ _ b hb
    show enc k (slice field b) = [] ++ (if b.k = k then enc k (slice field b) else _)
    rw [if_pos h.1, List.nil_append]
  rw [htrack, C10_agree_whole (fun _ => k) (fun _ => hk) 0 mbs (fun _ => []) enc' (fun _ => rfl)
    henc' (fun _ => by omega) field, layoutGen_eq_header]
  unfold cleanBlocks
  apply List.map_congr_left
  intro b hb
  have h := layoutHeader_mem k field.length field.length _ _ b hb
  show AsmBlock.mk b.off (slice field b) b.k [] (if b.k = k then enc k (slice field b) else _) = _
  rw [if_pos h.1, h.1]

theorem fold_accept (O : Ops) (k : Nat) : ∀ (bs : List AsmBlock) (acc : IntraResult),
    (∀ b ∈ bs, O.chk k b.msg b.ecc = true) →
    bs.foldl (fun acc b => intraBlock O k acc b.msg b.ecc) acc =
      { acc with field := acc.field ++ (bs.map (·.msg)).flatten } := by
  intro bs
  induction bs with
  | nil => intro acc _; simp only [List.foldl_nil, List.map_nil, List.flatten_nil, List.append_nil]
  | cons b bs ih =>
    intro acc h
    have hb := h b (List.mem_cons_self ..)
    rw [List.foldl_cons, ih _ (fun x hx => h x (List.mem_cons_of_mem _ hx))]
    simp only [intraBlock, hb, if_true, List.map_cons, List.flatten_cons, List.append_assoc]

theorem cleanBlocks_accept (O : Ops) (k : Nat) (hk : 1 ≤ k)
    (hacc : ∀ m : Bytes, 1 ≤ m.length → m.length ≤ k → O.chk k m (O.enc k m) = true) (field : Bytes) :
    ∀ b ∈ cleanBlocks O.enc k field, O.chk k b.msg b.ecc = true := by
  intro b hb
  simp only [cleanBlocks, List.mem_map] at hb
  obtain ⟨b0, hb0, rfl⟩ := hb
  have h := layoutHeader_mem k field.length field.length _ _ b0 hb0
  have hl := slice_length field b0
  rw [Nat.min_self] at h
  show O.chk k (slice field b0) (O.enc k (slice field b0)) = true
  exact hacc _ (by omega) (by omega)

theorem cleanBlocks_msgs (enc : Nat → Bytes → Bytes) (k : Nat) (hk : 1 ≤ k) (field : Bytes) :
    ((cleanBlocks enc k field).map (·.msg)).flatten = field := by
  have ht := (C10_header_tiles k field.length field.length hk).1
  simp only [cleanBlocks, List.map_map]
  have := tiles_flatten field _ _ _ ht
  rw [Nat.min_self, Nat.sub_zero, List.drop_zero, List.take_length] at this
  exact this

theorem fold_clean (O : Ops) (k : Nat) (hk : 1 ≤ k)
    (hacc : ∀ m : Bytes, 1 ≤ m.length → m.length ≤ k → O.chk k m (O.enc k m) = true) (field : Bytes) :
    (cleanBlocks O.enc k field).foldl (fun acc b => intraBlock O k acc b.msg b.ecc)
      { field := [], corrupted := false, corrected := true } =
      { field := field, corrupted := false, corrected := true } := by
  rw [fold_accept O k _ _ (cleanBlocks_accept O k hk hacc field), cleanBlocks_msgs O.enc k hk field,
    List.nil_append]

/-! ## intra-ecc: repair -/

/-- the original bytes at the place of an assembled block -/
def piece (orig : Bytes) (b : AsmBlock) : Bytes := (orig.drop b.off).take b.msg.length

theorem intraBlock_ok (O : Ops) (k : Nat) (orig : Bytes) (acc : IntraResult) (b : AsmBlock)
    (h : (b.msg = piece orig b ∧ O.chk k b.msg b.ecc = true) ∨
      (O.chk k b.msg b.ecc = false ∧
        ∃ p, O.dec k b.msg b.ecc = some (piece orig b, p) ∧ O.chk k (piece orig b) p = true)) :
    (intraBlock O k acc b.msg b.ecc).field = acc.field ++ piece orig b ∧
    (intraBlock O k acc b.msg b.ecc).corrected = acc.corrected := by
  rcases h with ⟨hm, hc⟩ | ⟨hc, p, hd, hc2⟩
  · simp only [intraBlock, hc, if_true, ← hm, and_self]
  · simp only [intraBlock, hc, Bool.false_eq_true, if_false, hd, hc2, if_true, and_self]

theorem fold_repair (O : Ops) (k : Nat) (orig : Bytes) : ∀ (bs : List AsmBlock) (acc : IntraResult),
    (∀ b ∈ bs, (b.msg = piece orig b ∧ O.chk k b.msg b.ecc = true) ∨
      (O.chk k b.msg b.ecc = false ∧
        ∃ p, O.dec k b.msg b.ecc = some (piece orig b, p) ∧ O.chk k (piece orig b) p = true)) →
    (bs.foldl (fun acc b => intraBlock O k acc b.msg b.ecc) acc).field =
      acc.field ++ (bs.map (piece orig)).flatten ∧
    (bs.foldl (fun acc b => intraBlock O k acc b.msg b.ecc) acc).corrected = acc.corrected := by
  intro bs
  induction bs with
  | nil =>
    intro acc _
    simp only [List.foldl_nil, List.map_nil, List.flatten_nil, List.append_nil, and_self]
  | cons b bs ih =>
    intro acc h
    have hb := intraBlock_ok O k orig acc b (h b (List.mem_cons_self ..))
    have := ih (intraBlock O k acc b.msg b.ecc) (fun x hx => h x (List.mem_cons_of_mem _ hx))
    rw [List.foldl_cons, this.1, this.2, hb.1, hb.2]
    simp only [List.map_cons, List.flatten_cons, List.append_assoc, and_self]

theorem assemble_pieces (kOf : Nat → Nat) (hashLen mbs : Nat) (content track orig : Bytes) :
    ∀ fuel c e,
      ((assemble kOf hashLen mbs content track fuel c e).map (piece orig)).flatten =
        (orig.drop c).take
          (((assemble kOf hashLen mbs content track fuel c e).map (·.msg)).flatten).length := by
  intro fuel
  induction fuel with
  | zero =>
    intro c e
    simp only [assemble, List.map_nil, List.flatten_nil, List.length_nil, List.take_zero]
  | succ fuel ih =>
    intro c e
    simp only [assemble]
    split
    · split
      · simp only [List.map_nil, List.flatten_nil, List.length_nil, List.take_zero]
      · simp only [List.map_cons, List.flatten_cons, List.length_append]
        rw [ih, List.take_add (l := orig.drop c), List.drop_drop]
        simp only [piece]
    · simp only [List.map_nil, List.flatten_nil, List.length_nil, List.take_zero]

theorem assembleHeader_nil_of_ge (k hashLen mbs readLen : Nat) (content track : Bytes)
    (fuel i j : Nat) (h : (content.take readLen).length ≤ i) :
    assembleHeader k hashLen mbs readLen content track fuel i j = [] := by
  cases fuel with
  | zero => rfl
  | succ fuel =>
    simp only [assembleHeader]
    rw [if_neg (by omega)]

theorem assembleHeader_pieces (k hashLen mbs readLen : Nat) (content track orig : Bytes) :
    ∀ fuel i j,
      ((assembleHeader k hashLen mbs readLen content track fuel i j).map (piece orig)).flatten =
        (orig.drop i).take
          (((assembleHeader k hashLen mbs readLen content track fuel i j).map (·.msg)).flatten).length := by
  intro fuel
  induction fuel with
  | zero =>
    intro i j
    simp only [assembleHeader, List.map_nil, List.flatten_nil, List.length_nil, List.take_zero]
  | succ fuel ih =>
    intro i j
    by_cases h2 : i + k ≤ (content.take readLen).length
    · simp only [assembleHeader]
      split
      · simp only [List.map_cons, List.flatten_cons, List.length_append]
        rw [ih, List.take_add, List.drop_drop]
        have hm : (((content.take readLen).drop i).take k).length = k := by
          rw [List.length_take, List.length_drop]; omega
        simp only [piece, hm]
      · simp only [List.map_nil, List.flatten_nil, List.length_nil, List.take_zero]
    · simp only [assembleHeader]
      split
      · rw [assembleHeader_nil_of_ge k hashLen mbs readLen content track fuel (i + k) _ (by omega)]
        simp only [List.map_cons, List.map_nil, List.flatten_cons, List.flatten_nil,
          List.append_nil, piece]
      · simp only [List.map_nil, List.flatten_nil, List.length_nil, List.take_zero]

/-- common conclusion of the two repair theorems -/
theorem repair_of_blocks (O : Ops) (k : Nat) (orig field' : Bytes) (bs : List AsmBlock)
    (hlen : field'.length = orig.length)
    (hcover : (bs.map (·.msg)).flatten = field')
    (hpieces : (bs.map (piece orig)).flatten = (orig.drop 0).take ((bs.map (·.msg)).flatten).length)
    (hok : ∀ b ∈ bs, (b.msg = piece orig b ∧ O.chk k b.msg b.ecc = true) ∨
      (O.chk k b.msg b.ecc = false ∧
        ∃ p, O.dec k b.msg b.ecc = some (piece orig b, p) ∧ O.chk k (piece orig b) p = true)) :
    (bs.foldl (fun acc b => intraBlock O k acc b.msg b.ecc)
      { field := [], corrupted := false, corrected := true }).field = orig ∧
    (bs.foldl (fun acc b => intraBlock O k acc b.msg b.ecc)
      { field := [], corrupted := false, corrected := true }).corrected = true := by
  have h := fold_repair O k orig bs { field := [], corrupted := false, corrected := true } hok
  rw [h.1, h.2, hpieces, hcover, hlen, List.drop_zero, List.take_length, List.nil_append]
  exact ⟨rfl, rfl⟩

end Pff.Entry.A
