import Pff.Props.RunC
/-!
Helper lemmas for `Pff/Props/Chain.lean`, part 2 (`C09_run_metadata_within_capacity`): `locate` on
an entry whose metadata fields decode to given values, and `processEntry` as a function of what
`locate` found and of the bytes of the ecc file from the start of the track.
-/
namespace Pff.Run.Chain

open Pff.Ecc Pff.Layout Pff.Entry Pff.Scan Pff.Run Pff.Run.C

/-! ### the stream is looked at from the start of the track only -/

theorem assembleAt_congr_from (kOf : Nat → Nat) (hashLen mbs : Nat) (content s1 s2 : Bytes) (endpos t : Nat)
    (h : s1.drop t = s2.drop t) :
    ∀ fuel cur e, t ≤ e →
      assembleAt kOf hashLen mbs content s1 endpos fuel cur e =
        assembleAt kOf hashLen mbs content s2 endpos fuel cur e := by
  intro fuel
  induction fuel with
  | zero => intro cur e _; rfl
  | succ fuel ih =>
    intro cur e he
    have key : ∀ s : Bytes, s.drop e = (s.drop t).drop (e - t) := by
      intro s
      rw [List.drop_drop]
      congr 1
      omega
    have hd : s1.drop e = s2.drop e := by rw [key s1, key s2, h]
    simp only [assembleAt, hd]
    rw [ih _ _ (Nat.le_trans he (Nat.le_add_right _ _))]

theorem processEntry_eq' (O : Ops) (P : Params) (fs : FS) (stream : Bytes) (a b : Nat) :
    processEntry O P fs stream a b =
      processCore O P stream b (locate O P fs stream a b).path (locate O P fs stream a b).fields
        (locate O P fs stream a b).body (locate O P fs stream a b).trackStartAbs
        (locate O P fs stream a b).target := rfl

/-- what is done with an entry, the position of the cursor apart, depends on the located path,
target and track position, and on the track: the bytes `pyFrom body trackOff` (header tool), the
blocks read from the ecc file from the track position on (whole-file tool) -/
theorem processCore_view_congr (O : Ops) (P : Params) (s1 s2 : Bytes) (b : Nat) (path : Bytes)
    (f1 f2 : Fields) (body1 body2 : Bytes) (ts : Nat) (target : Option (Int × Bytes))
    (hh : P.tool = .header → pyFrom body1 f1.trackOff = pyFrom body2 f2.trackOff)
    (hw : ∀ size content, P.tool = .whole → target = some (size, content) →
      assembleAt (P.kOfFor size.toNat) P.hashLen P.mbs content s1 b (content.length + 1) 0 ts =
        assembleAt (P.kOfFor size.toNat) P.hashLen P.mbs content s2 b (content.length + 1) 0 ts) :
    view (processCore O P s1 b path f1 body1 ts target) =
      view (processCore O P s2 b path f2 body2 ts target) := by
  unfold processCore view
  split
  · rfl
  · split
    · rename_i htool
      simp only [hh htool]
    · rename_i size content _ htool
      rw [correctWholeAt_congr O P.fast P.thr (P.kOfFor size.toNat) P.hashLen P.mbs content s1 s2 ts b
        (hw size content htool rfl)]

/-! ### `locate` on an entry whose metadata decode to given values -/

/-- lenient `int()`, file lookup and size check of `locate` -/
def targetOf (P : Params) (fs : FS) (path sizeTxt : Bytes) : Option (Int × Bytes) :=
  match pyInt sizeTxt with
  | none => none
  | some size =>
    if path.contains 0 then none
    else match fsLookup fs path with
      | none => none
      | some content => if size ≠ (content.length : Int) && !P.ignoreSize then none else some (size, content)

theorem locate_meta_header (O : Ops) (P : Params) (fs : FS) (S : Bytes) (a b : Nat)
    (q : EntryParts) (path sizeTxt track' : Bytes) (htool : P.tool = .header)
    (hne : q.path ≠ []) (c1 : Clean q.path) (c2 : Clean q.sizeTxt) (c3 : Clean q.pathEcc) (c4 : Clean q.sizeEcc)
    (hpath : (correctIntraHeader O P.kIntra P.mbs q.path q.pathEcc).field = path)
    (hsize : (correctIntraHeader O P.kIntra P.mbs q.sizeTxt q.sizeEcc).field = sizeTxt)
    (hS : (S.drop a).take (b - a) = metaOf q ++ track') :
    locate O P fs S a b =
      { path := path,
        fields := { path := q.path, sizeRaw := q.sizeTxt, pathEcc := q.pathEcc, sizeEcc := q.sizeEcc,
                    trackOff := (((metaOf q).length : Nat) : Int), stripped := 0 },
        body := metaOf q ++ track',
        trackStartAbs := min (a + (metaOf q).length) b,
        target := targetOf P fs path sizeTxt } := by
  unfold locate
  simp only [htool]
  rw [hS, fields_meta _ _ hne c1 c2 c3 c4]
  simp only [List.drop_zero, Nat.add_zero, Int.toNat_natCast]
  rw [hpath, hsize]
  rfl

theorem locate_meta_whole (O : Ops) (P : Params) (fs : FS) (S : Bytes) (a b : Nat)
    (q : EntryParts) (path sizeTxt track' : Bytes) (htool : P.tool = .whole)
    (hne : q.path ≠ []) (c1 : Clean q.path) (c2 : Clean q.sizeTxt) (c3 : Clean q.pathEcc) (c4 : Clean q.sizeEcc)
    (hpath : (correctIntraWhole O P.kIntra P.mbs q.path q.pathEcc).field = path)
    (hsize : (correctIntraWhole O P.kIntra P.mbs q.sizeTxt q.sizeEcc).field = sizeTxt)
    (hS : ((S.drop a).take (b - a)).take 65535 = metaOf q ++ track') :
    locate O P fs S a b =
      { path := path,
        fields := { path := q.path, sizeRaw := q.sizeTxt, pathEcc := q.pathEcc, sizeEcc := q.sizeEcc,
                    trackOff := (((metaOf q).length : Nat) : Int), stripped := 0 },
        body := metaOf q ++ track',
        trackStartAbs := min (a + (metaOf q).length) b,
        target := targetOf P fs path sizeTxt } := by
  unfold locate
  simp only [htool]
  rw [hS, fields_meta _ _ hne c1 c2 c3 c4]
  simp only [List.drop_zero, Nat.add_zero, Int.toNat_natCast]
  rw [hpath, hsize]
  rfl

/-! ### two entries with the same track whose metadata decode to the same values -/

theorem entry_window (X Y body : Bytes) :
    ((X ++ body ++ Y).drop X.length).take (X.length + body.length - X.length) = body := by
  rw [List.append_assoc, List.drop_left, Nat.add_sub_cancel_left, List.take_left]

theorem stream_drop (X Y m T : Bytes) (t : Nat) (ht : X.length + m.length ≤ t) :
    (X ++ (m ++ T) ++ Y).drop t = (T ++ Y).drop (t - (X.length + m.length)) := by
  have : X ++ (m ++ T) ++ Y = (X ++ m) ++ (T ++ Y) := by simp only [List.append_assoc]
  rw [this]
  have ht' : t = (X ++ m).length + (t - (X.length + m.length)) := by rw [List.length_append]; omega
  conv => lhs; rw [ht']
  rw [← List.drop_drop, List.drop_left]

theorem view_same_meta (O : Ops) (P : Params) (fs : FS) (X Y : Bytes) (p p' : EntryParts)
    (path sizeTxt : Bytes)
    (htrack : p'.track = p.track) (hml : (metaOf p').length = (metaOf p).length)
    (hshort : (metaOf p).length ≤ 65535)
    (hne : p.path ≠ []) (hne' : p'.path ≠ [])
    (hc : Clean p.path ∧ Clean p.sizeTxt ∧ Clean p.pathEcc ∧ Clean p.sizeEcc)
    (hc' : Clean p'.path ∧ Clean p'.sizeTxt ∧ Clean p'.pathEcc ∧ Clean p'.sizeEcc)
    (hdec : match P.tool with
      | .header => (correctIntraHeader O P.kIntra P.mbs p.path p.pathEcc).field = path ∧
                   (correctIntraHeader O P.kIntra P.mbs p.sizeTxt p.sizeEcc).field = sizeTxt
      | .whole => (correctIntraWhole O P.kIntra P.mbs p.path p.pathEcc).field = path ∧
                  (correctIntraWhole O P.kIntra P.mbs p.sizeTxt p.sizeEcc).field = sizeTxt)
    (hdec' : match P.tool with
      | .header => (correctIntraHeader O P.kIntra P.mbs p'.path p'.pathEcc).field = path ∧
                   (correctIntraHeader O P.kIntra P.mbs p'.sizeTxt p'.sizeEcc).field = sizeTxt
      | .whole => (correctIntraWhole O P.kIntra P.mbs p'.path p'.pathEcc).field = path ∧
                  (correctIntraWhole O P.kIntra P.mbs p'.sizeTxt p'.sizeEcc).field = sizeTxt) :
    view (processEntry O P fs (X ++ (metaOf p' ++ p'.track) ++ Y) X.length
        (X.length + (metaOf p' ++ p'.track).length)) =
      view (processEntry O P fs (X ++ (metaOf p ++ p.track) ++ Y) X.length
        (X.length + (metaOf p ++ p.track).length)) := by
  have hb : X.length + (metaOf p' ++ p'.track).length = X.length + (metaOf p ++ p.track).length := by
    rw [List.length_append, List.length_append, htrack, hml]
  have hS := entry_window X Y (metaOf p ++ p.track)
  have hS' := entry_window X Y (metaOf p' ++ p'.track)
  rw [hb] at hS' ⊢
  obtain ⟨c1, c2, c3, c4⟩ := hc
  obtain ⟨c1', c2', c3', c4'⟩ := hc'
  rw [processEntry_eq', processEntry_eq']
  cases htool : P.tool with
  | header =>
    simp only [htool] at hdec hdec'
    rw [locate_meta_header O P fs _ X.length _ p' path sizeTxt p'.track htool hne' c1' c2' c3' c4' hdec'.1 hdec'.2 hS',
      locate_meta_header O P fs _ X.length _ p path sizeTxt p.track htool hne c1 c2 c3 c4 hdec.1 hdec.2 hS]
    simp only [hml]
    apply processCore_view_congr
    · intro _
      simp only []
      rw [← hml, pyFrom_meta, hml, pyFrom_meta, htrack]
    · intro _ _ h
      rw [htool] at h
      cases h
  | whole =>
    simp only [htool] at hdec hdec'
    have hSw : (((X ++ (metaOf p ++ p.track) ++ Y).drop X.length).take
        (X.length + (metaOf p ++ p.track).length - X.length)).take 65535 =
        metaOf p ++ p.track.take (65535 - (metaOf p).length) := by
      rw [hS, List.take_append, List.take_of_length_le hshort]
    have hSw' : (((X ++ (metaOf p' ++ p'.track) ++ Y).drop X.length).take
        (X.length + (metaOf p ++ p.track).length - X.length)).take 65535 =
        metaOf p' ++ p'.track.take (65535 - (metaOf p').length) := by
      rw [hS', List.take_append, List.take_of_length_le (by omega)]
    rw [locate_meta_whole O P fs _ X.length _ p' path sizeTxt _ htool hne' c1' c2' c3' c4' hdec'.1 hdec'.2 hSw',
      locate_meta_whole O P fs _ X.length _ p path sizeTxt _ htool hne c1 c2 c3 c4 hdec.1 hdec.2 hSw]
    simp only [hml]
    apply processCore_view_congr
    · intro h
      rw [htool] at h
      cases h
    · intro size content _ _
      apply assembleAt_congr_from _ _ _ _ _ _ _ (min (X.length + (metaOf p).length) (X.length + (metaOf p ++ p.track).length))
      · have hle : X.length + (metaOf p).length ≤
            min (X.length + (metaOf p).length) (X.length + (metaOf p ++ p.track).length) := by
          rw [List.length_append]; omega
        rw [stream_drop X Y (metaOf p') p'.track _ (by rw [hml]; exact hle),
          stream_drop X Y (metaOf p) p.track _ hle, htrack, hml]
      · exact Nat.le_refl _

/-- damaged metadata within the intra capacity decode to the pristine fields -/
theorem decoded_of_ok (O : Ops) (P : Params) (p p' : EntryParts)
    (lenPath : p'.path.length = p.path.length) (lenSize : p'.sizeTxt.length = p.sizeTxt.length)
    (pathOK : match P.tool with
      | .header =>
        ((assembleHeader P.kIntra 0 P.mbs p'.path.length p'.path p'.pathEcc (p'.path.length + 1) 0 0).map (·.msg)).flatten = p'.path ∧
        ∀ b ∈ assembleHeader P.kIntra 0 P.mbs p'.path.length p'.path p'.pathEcc (p'.path.length + 1) 0 0, IntraBlockOK O P.kIntra p.path b
      | .whole =>
        ((assemble (fun _ => P.kIntra) 0 P.mbs p'.path p'.pathEcc (p'.path.length + 1) 0 0).map (·.msg)).flatten = p'.path ∧
        ∀ b ∈ assemble (fun _ => P.kIntra) 0 P.mbs p'.path p'.pathEcc (p'.path.length + 1) 0 0, IntraBlockOK O P.kIntra p.path b)
    (sizeOK : match P.tool with
      | .header =>
        ((assembleHeader P.kIntra 0 P.mbs p'.sizeTxt.length p'.sizeTxt p'.sizeEcc (p'.sizeTxt.length + 1) 0 0).map (·.msg)).flatten = p'.sizeTxt ∧
        ∀ b ∈ assembleHeader P.kIntra 0 P.mbs p'.sizeTxt.length p'.sizeTxt p'.sizeEcc (p'.sizeTxt.length + 1) 0 0, IntraBlockOK O P.kIntra p.sizeTxt b
      | .whole =>
        ((assemble (fun _ => P.kIntra) 0 P.mbs p'.sizeTxt p'.sizeEcc (p'.sizeTxt.length + 1) 0 0).map (·.msg)).flatten = p'.sizeTxt ∧
        ∀ b ∈ assemble (fun _ => P.kIntra) 0 P.mbs p'.sizeTxt p'.sizeEcc (p'.sizeTxt.length + 1) 0 0, IntraBlockOK O P.kIntra p.sizeTxt b) :
    match P.tool with
      | .header => (correctIntraHeader O P.kIntra P.mbs p'.path p'.pathEcc).field = p.path ∧
                   (correctIntraHeader O P.kIntra P.mbs p'.sizeTxt p'.sizeEcc).field = p.sizeTxt
      | .whole => (correctIntraWhole O P.kIntra P.mbs p'.path p'.pathEcc).field = p.path ∧
                  (correctIntraWhole O P.kIntra P.mbs p'.sizeTxt p'.sizeEcc).field = p.sizeTxt := by
  cases htool : P.tool with
  | header =>
    simp only [htool] at pathOK sizeOK ⊢
    exact ⟨(C09_intra_repair_header O P.kIntra P.mbs p.path p'.path p'.pathEcc lenPath pathOK.1 pathOK.2).1,
      (C09_intra_repair_header O P.kIntra P.mbs p.sizeTxt p'.sizeTxt p'.sizeEcc lenSize sizeOK.1 sizeOK.2).1⟩
  | whole =>
    simp only [htool] at pathOK sizeOK ⊢
    exact ⟨(C09_intra_repair_whole O P.kIntra P.mbs p.path p'.path p'.pathEcc lenPath pathOK.1 pathOK.2).1,
      (C09_intra_repair_whole O P.kIntra P.mbs p.sizeTxt p'.sizeTxt p'.sizeEcc lenSize sizeOK.1 sizeOK.2).1⟩

end Pff.Run.Chain
