import Pff.Model.Entry
import Pff.Props.C14
import Pff.Props.C10
import Pff.Props.C09
/-! Helper lemmas for C08 (independence of ecc entries). -/
namespace Pff.Entry.C
open Pff.Entry Pff.Ecc Pff.Layout Pff.Scan

/-! ## fuel monotonicity of the declarative scan -/

/-- once the declarative scan has ended before the fuel ran out, more fuel changes nothing -/
theorem specAll_mono (s m : List Nat) : ∀ fuel pos d,
    (specAll s m fuel pos).length < fuel → specAll s m (fuel + d) pos = specAll s m fuel pos := by
  intro fuel
  induction fuel with
  | zero => intro pos d h; simp only [Nat.not_lt_zero] at h
  | succ fuel ih =>
    intro pos d h
    have e : fuel + 1 + d = (fuel + d) + 1 := by omega
    rw [e, specAll_succ, specAll_succ]
    rw [specAll_succ] at h
    cases hs : specNext s m pos with
    | none => rfl
    | some ab =>
      obtain ⟨a, b⟩ := ab
      rw [hs] at h
      simp only [List.length_cons, Nat.add_lt_add_iff_right] at h
      simp only
      rw [ih a d h]

theorem specAll_mono' (s m : List Nat) (fuel fuel' pos : Nat) (hle : fuel ≤ fuel')
    (h : (specAll s m fuel pos).length < fuel) :
    specAll s m fuel' pos = specAll s m fuel pos := by
  have e : fuel' = fuel + (fuel' - fuel) := by omega
  rw [e]
  exact specAll_mono s m fuel pos _ h

theorem intended_length (mk : List Nat) : ∀ (es : List (List Nat)) (off : Nat),
    (intended mk off es).length = es.length := by
  intro es
  induction es with
  | nil => intro off; rfl
  | cons e es ih =>
    intro off
    simp only [intended, List.length_cons, ih]

theorem flatten_markers_length (mk : List Nat) (hm : 0 < mk.length) : ∀ (es : List (List Nat)),
    es.length ≤ ((es.map (fun e => mk ++ e)).flatten).length := by
  intro es
  induction es with
  | nil => simp only [List.map_nil, List.flatten_nil, List.length_nil, Nat.le_refl]
  | cons e es ih =>
    simp only [List.map_cons, List.flatten_cons, List.length_cons, List.length_append]
    omega

theorem build_length_ge (pre mk : List Nat) (hm : 0 < mk.length) (es : List (List Nat)) :
    es.length ≤ (build pre mk es).length := by
  have := flatten_markers_length mk hm es
  unfold build
  rw [List.length_append]
  exact Nat.le_trans this (Nat.le_add_left _ _)

/-- the scan of a generated stream with the fuel used by the tools' loop -/
theorem scanAll_built_fuel (pre mk : List Nat) (es : List (List Nat)) (blocksize : Nat)
    (hm : 0 < mk.length) (h : NoAccidental pre mk es) :
    scanAll false (build pre mk es) mk blocksize ((build pre mk es).length + 2) 0 =
      intended mk pre.length es := by
  rw [C14_scan _ _ _ _ hm]
  have hi := C14_intended pre mk es hm h
  have hlen : (specAll (build pre mk es) mk (es.length + 1) 0).length < es.length + 1 := by
    rw [hi, intended_length]; omega
  have hge := build_length_ge pre mk hm es
  rw [specAll_mono' _ _ (es.length + 1) _ 0 (by omega) hlen, hi]

/-- the loop over all entries of a generated stream: each entry's own bytes are processed -/
theorem loop_built {R : Type} (f : List Nat → R) (pre mk : List Nat) (es : List (List Nat))
    (blocksize : Nat) (hm : 0 < mk.length) (h : NoAccidental pre mk es) :
    ((scanAll false (build pre mk es) mk blocksize ((build pre mk es).length + 2) 0).map
      (fun ab => ((build pre mk es).drop ab.1).take (ab.2 - ab.1))).map f = es.map f := by
  rw [scanAll_built_fuel pre mk es blocksize hm h, C14_content_built]

theorem getElem?_map_set_ne {R : Type} (f : List Nat → R) (entries : List (List Nat)) (v j : Nat)
    (V' : List Nat) (hj : j ≠ v) (hlt : j < entries.length) :
    ((entries.set v V').map f)[j]? = some (f (entries[j]?.getD [])) := by
  rw [List.getElem?_map, List.getElem?_set_ne (Ne.symm hj), List.getElem?_eq_getElem hlt]
  rfl

/-! ## trailing bytes after the ecc track are never consumed -/

theorem assemble_agree_trailing (kOf : Nat → Nat) (hk : ∀ x, 1 ≤ kOf x) (hashLen mbs : Nat)
    (H : List Nat → List Nat) (enc : Nat → List Nat → List Nat)
    (hH : ∀ m, (H m).length = hashLen)
    (henc : ∀ k m, 1 ≤ m.length → m.length ≤ k → (enc k m).length = mbs - k)
    (hpos : ∀ x, 1 ≤ hashLen + (mbs - kOf x))
    (content G : List Nat) :
    ∀ fuel c pre,
      assemble kOf hashLen mbs content
          (pre ++ (((layoutGen kOf content.length fuel c).map
            (fun b => H (slice content b) ++ enc b.k (slice content b))).flatten ++ G))
          fuel c pre.length =
        (layoutGen kOf content.length fuel c).map
          (fun b => { off := b.off, msg := slice content b, k := b.k,
                      hash := H (slice content b), ecc := enc b.k (slice content b) }) := by
  intro fuel
  induction fuel with
  | zero => intro c pre; rfl
  | succ fuel ih =>
    intro c pre
    by_cases h : c < content.length
    · rw [layoutGen_cons kOf content.length fuel c h]
      simp only [List.map_cons, List.flatten_cons]
      have hkc := hk c
      have hlen : (slice content ⟨c, min (kOf c) (content.length - c), kOf c⟩).length =
          min (kOf c) (content.length - c) := by
        rw [slice_length]; show min (min _ _) (_ - c) = _; omega
      rw [List.append_assoc (H _ ++ enc _ _) _ G]
      rw [assemble_step kOf hashLen mbs content pre _ _ _ fuel c h hkc (hH _)
        (henc _ _ (by omega) (by omega)) (hpos c)]
      rw [ih _ (pre ++ _)]
    · rw [layoutGen_nil_of_ge kOf content.length _ c (by omega)]
      have hd : content.drop c = [] := List.drop_eq_nil_of_le (by omega)
      simp only [List.map_nil, List.flatten_nil, List.nil_append, assemble, hd, List.take_nil,
        List.isEmpty_nil, if_true, ite_self]

theorem assemble_trailing_whole (kOf : Nat → Nat) (hk : ∀ x, 1 ≤ kOf x) (hashLen mbs : Nat)
    (H : List Nat → List Nat) (enc : Nat → List Nat → List Nat)
    (hH : ∀ m, (H m).length = hashLen)
    (henc : ∀ k m, 1 ≤ m.length → m.length ≤ k → (enc k m).length = mbs - k)
    (hpos : ∀ x, 1 ≤ hashLen + (mbs - kOf x))
    (content G : List Nat) :
    assemble kOf hashLen mbs content (genTrack H enc kOf content ++ G) (content.length + 1) 0 0 =
      assemble kOf hashLen mbs content (genTrack H enc kOf content) (content.length + 1) 0 0 := by
  rw [C10_agree_whole kOf hk hashLen mbs H enc hH henc hpos content]
  have h := assemble_agree_trailing kOf hk hashLen mbs H enc hH henc hpos content G
    (content.length + 1) 0 []
  simpa only [genTrack, List.nil_append, List.length_nil] using h

theorem assembleHeader_agree_trailing (k hashLen mbs hs : Nat) (hk : 1 ≤ k)
    (H : List Nat → List Nat) (enc : Nat → List Nat → List Nat)
    (hH : ∀ m, (H m).length = hashLen)
    (henc : ∀ m, 1 ≤ m.length → m.length ≤ k → (enc k m).length = mbs - k)
    (hpos : 1 ≤ hashLen + (mbs - k))
    (content G : List Nat) :
    ∀ fuel i pre,
      assembleHeader k hashLen mbs hs content
          (pre ++ (((layoutHeader k hs content.length fuel i).map
            (fun b => H (slice content b) ++ enc b.k (slice content b))).flatten ++ G))
          fuel i pre.length =
        (layoutHeader k hs content.length fuel i).map
          (fun b => { off := b.off, msg := slice content b, k := b.k,
                      hash := H (slice content b), ecc := enc b.k (slice content b) }) := by
  intro fuel
  induction fuel with
  | zero => intro i pre; rfl
  | succ fuel ih =>
    intro i pre
    by_cases h : i < min hs content.length
    · rw [layoutHeader_cons k hs content.length fuel i h]
      simp only [List.map_cons, List.flatten_cons]
      have hlen : (slice content ⟨i, min k (min hs content.length - i), k⟩).length =
          min k (min hs content.length - i) := by
        rw [slice_length]; show min (min _ _) (_ - i) = _; omega
      rw [List.append_assoc (H _ ++ enc _ _) _ G]
      rw [assembleHeader_step k hashLen mbs hs content pre _ _ _ fuel i h (hH _)
        (henc _ (by omega) (by omega)) hpos]
      rw [ih _ (pre ++ _)]
    · rw [layoutHeader_nil_of_ge k hs content.length _ i (by omega)]
      simp only [List.map_nil, List.flatten_nil, List.nil_append, assembleHeader]
      rw [if_neg]
      rw [List.length_take]
      omega

theorem assembleHeader_trailing (k hashLen mbs headerSize : Nat) (hk : 1 ≤ k)
    (H : List Nat → List Nat) (enc : Nat → List Nat → List Nat)
    (hH : ∀ m, (H m).length = hashLen)
    (henc : ∀ m, 1 ≤ m.length → m.length ≤ k → (enc k m).length = mbs - k)
    (hpos : 1 ≤ hashLen + (mbs - k))
    (content G : List Nat) :
    assembleHeader k hashLen mbs headerSize content (genTrackHeader H enc k headerSize content ++ G)
        (content.length + 1) 0 0 =
      assembleHeader k hashLen mbs headerSize content (genTrackHeader H enc k headerSize content)
        (content.length + 1) 0 0 := by
  rw [C10_agree_header k hashLen mbs headerSize hk H enc hH henc hpos content]
  have h := assembleHeader_agree_trailing k hashLen mbs headerSize hk H enc hH henc hpos content G
    (content.length + 1) 0 []
  simpa only [genTrackHeader, List.nil_append, List.length_nil] using h

/-! ## field splitting ignores bytes glued to the track -/

theorem fields_ignore_trailing (p : EntryParts) (G : List Nat) (hp : p.path ≠ [])
    (h1 : Clean p.path) (h2 : Clean p.sizeTxt) (h3 : Clean p.pathEcc) (h4 : Clean p.sizeEcc) :
    entryFields ((genEntry { p with track := p.track ++ G }).drop marker.length) =
      entryFields ((genEntry p).drop marker.length) := by
  rw [C09_fields_roundtrip p hp h1 h2 h3 h4,
    C09_fields_roundtrip { p with track := p.track ++ G } hp h1 h2 h3 h4]

end Pff.Entry.C
