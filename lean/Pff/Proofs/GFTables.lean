import Pff.Model.GF
/-!
Kernel-checked finite facts about the packed GF(2^8) tables of `Pff/Model/GF.lean`
(`decide +kernel`, no extra axiom): `exp`/`log` are mutually inverse bijections between `[0,255)`
and `[1,256)`, multiplication by the generator is additive (65 536 cases), and the `exp` table is
the orbit of the generator under carry-less multiplication modulo the primitive polynomial.
Core Lean only.
-/
namespace Pff.GFProofs

open Pff.GF

/-! ### bounded universal quantifier evaluated by the kernel -/

def allLt (n : Nat) (p : Nat → Bool) : Bool := Nat.rec true (fun i acc => acc && p i) n

theorem allLt_spec {n : Nat} {p : Nat → Bool} (h : allLt n p = true) : ∀ i, i < n → p i = true := by
  induction n with
  | zero => intro i hi; omega
  | succ n ih =>
    intro i hi
    have h' : (allLt n p && p n) = true := h
    rw [Bool.and_eq_true] at h'
    rcases Nat.lt_succ_iff_lt_or_eq.mp hi with hlt | heq
    · exact ih h'.1 i hlt
    · subst heq; exact h'.2

def chkE1 (p : Params) : Bool :=
  allLt 255 fun i => glog p (gexp p i) == i && gexp p i != 0 && decide (gexp p i < 256)
def chkE2 (p : Params) : Bool :=
  allLt 256 fun a => a == 0 || (gexp p (glog p a) == a && decide (glog p a < 255))
def chkL (p : Params) : Bool :=
  allLt 256 fun b => allLt 256 fun c =>
    tmul p (gexp p 1) (b ^^^ c) == (tmul p (gexp p 1) b ^^^ tmul p (gexp p 1) c)
def chkTie (p : Params) : Bool :=
  allLt 254 fun i => gexp p (i + 1) == clmulmod p.prim 8 (gexp p i) p.gen

/-- the finite table facts everything else is derived from -/
structure TableFacts (p : Params) : Prop where
  e1 : chkE1 p = true
  e2 : chkE2 p = true
  lg : chkL p = true
  gexp_zero : gexp p 0 = 1

theorem chkE1_A : chkE1 pA = true := by decide +kernel
theorem chkE2_A : chkE2 pA = true := by decide +kernel
theorem chkL_A : chkL pA = true := by decide +kernel
theorem chkTie_A : chkTie pA = true := by decide +kernel
theorem gexp_zero_A : gexp pA 0 = 1 := by decide +kernel
theorem chkE1_B : chkE1 pB = true := by decide +kernel
theorem chkE2_B : chkE2 pB = true := by decide +kernel
theorem chkL_B : chkL pB = true := by decide +kernel
theorem chkTie_B : chkTie pB = true := by decide +kernel
theorem gexp_zero_B : gexp pB 0 = 1 := by decide +kernel

theorem factsA : TableFacts pA := ⟨chkE1_A, chkE2_A, chkL_A, gexp_zero_A⟩
theorem factsB : TableFacts pB := ⟨chkE1_B, chkE2_B, chkL_B, gexp_zero_B⟩

end Pff.GFProofs
