import Pff.Proofs.Path
/-!
`join2`, `normpath`, `abspath`, `relpath`, `pureParts`, `path2unix` on normalised absolute paths
(`GoodRoot`) and plain components.
-/
namespace Pff.Path

/-- the two possible prefixes of a normalised absolute path -/
def PreOK (pre : Bytes) : Prop := pre = [sep] ∨ pre = [sep, sep]

abbrev AllPlain (l : List Bytes) : Prop := ∀ c ∈ l, Plain c

theorem AllPlain.append {a b : List Bytes} (ha : AllPlain a) (hb : AllPlain b) : AllPlain (a ++ b) := by
  intro c hc
  rw [List.mem_append] at hc
  rcases hc with hc | hc
  · exact ha c hc
  · exact hb c hc

theorem AllPlain.single {f : Bytes} (hf : Plain f) : AllPlain [f] := by
  intro c hc
  rw [List.mem_singleton] at hc
  subst hc; exact hf

theorem AllPlain.tail {c : Bytes} {l : List Bytes} (h : AllPlain (c :: l)) : AllPlain l :=
  fun x hx => h x (List.mem_cons_of_mem _ hx)

/-! ## `join2` -/

theorem join2_good_nil (pre b : Bytes) (hpre : PreOK pre) (hb : b.head? ≠ some sep) :
    join2 (pre ++ joinSlash []) b = pre ++ b := by
  rcases hpre with rfl | rfl <;> simp [join2, hb, joinSlash]

theorem join2_good_cons (pre : Bytes) (comps : List Bytes) (b : Bytes) (hne : comps ≠ [])
    (hc : AllPlain comps) (hb : b.head? ≠ some sep) :
    join2 (pre ++ joinSlash comps) b = pre ++ joinSlash comps ++ sep :: b := by
  have h1 := joinSlash_ne_nil comps hne hc
  have h2 := joinSlash_getLast comps hne hc
  unfold join2
  rw [if_neg hb]
  have : ((pre ++ joinSlash comps).isEmpty || decide ((pre ++ joinSlash comps).getLast? = some sep))
      = false := by
    rw [getLast?_append_ne_nil _ _ h1]
    simp [h2, h1]
  rw [this]
  simp

theorem join2_good_plain (pre : Bytes) (comps L : List Bytes) (hpre : PreOK pre)
    (hc : AllPlain comps) (hL : AllPlain L) (hne : L ≠ []) :
    join2 (pre ++ joinSlash comps) (joinSlash L) = pre ++ joinSlash (comps ++ L) := by
  have hh := joinSlash_head L hL
  by_cases e : comps = []
  · subst e
    rw [join2_good_nil pre _ hpre hh]; simp
  · rw [join2_good_cons pre comps _ e hc hh, joinSlash_append comps L e hne]
    simp

theorem join2_good_one (pre : Bytes) (comps : List Bytes) (d : Bytes) (hpre : PreOK pre)
    (hc : AllPlain comps) (hd : Plain d) :
    join2 (pre ++ joinSlash comps) d = pre ++ joinSlash (comps ++ [d]) :=
  join2_good_plain pre comps [d] hpre hc (AllPlain.single hd) (by simp)

theorem foldl_join2_good (pre : Bytes) (hpre : PreOK pre) (ds : List Bytes) :
    ∀ (comps : List Bytes), AllPlain comps → AllPlain ds →
      ds.foldl join2 (pre ++ joinSlash comps) = pre ++ joinSlash (comps ++ ds) := by
  induction ds with
  | nil => intro comps _ _; simp
  | cons d rest ih =>
    intro comps hc hds
    have hd : Plain d := hds d (by simp)
    rw [List.foldl_cons, join2_good_one pre comps d hpre hc hd,
      ih (comps ++ [d]) (hc.append (AllPlain.single hd)) hds.tail]
    simp

/-- `join` on plain components is `joinSlash` -/
theorem foldl_join2_plain (more : List Bytes) :
    ∀ (L : List Bytes), L ≠ [] → AllPlain L → AllPlain more →
      more.foldl join2 (joinSlash L) = joinSlash (L ++ more) := by
  induction more with
  | nil => intro L _ _ _; simp
  | cons d rest ih =>
    intro L hne hL hm
    have hd : Plain d := hm d (by simp)
    have h1 := joinSlash_ne_nil L hne hL
    have h2 := joinSlash_getLast L hne hL
    have hj : join2 (joinSlash L) d = joinSlash (L ++ [d]) := by
      rw [joinSlash_snoc L d hne]
      unfold join2
      rw [if_neg hd.head]
      have : ((joinSlash L).isEmpty || decide ((joinSlash L).getLast? = some sep)) = false := by
        simp [h1, h2]
      rw [this]
      simp
    rw [List.foldl_cons, hj, ih (L ++ [d]) (by simp) (hL.append (AllPlain.single hd)) hm.tail]
    simp

theorem join_plain (a : Bytes) (more : List Bytes) (h : AllPlain (a :: more)) :
    join a more = joinSlash (a :: more) := by
  have := foldl_join2_plain more [a] (by simp) (AllPlain.single (h a (by simp))) h.tail
  simpa [join, joinSlash] using this

/-! ## `normpath` -/

theorem initialSlashes_one (r : Bytes) (h : r.head? ≠ some sep) : initialSlashes (sep :: r) = 1 := by
  cases r with
  | nil => rfl
  | cons x r' =>
    simp only [List.head?_cons, ne_eq, Option.some.injEq, sep] at h
    unfold initialSlashes sep
    split <;> simp_all

theorem initialSlashes_two (r : Bytes) (h : r.head? ≠ some sep) :
    initialSlashes (sep :: sep :: r) = 2 := by
  cases r with
  | nil => rfl
  | cons x r' =>
    simp only [List.head?_cons, ne_eq, Option.some.injEq, sep] at h
    unfold initialSlashes sep
    split
    · simp_all
    · rfl
    · rename_i hx heq
      injection heq with _ heq
      exact absurd heq.symm (hx _)
    · simp_all

theorem initialSlashes_good (pre : Bytes) (comps : List Bytes) (hpre : PreOK pre)
    (hc : AllPlain comps) : initialSlashes (pre ++ joinSlash comps) = pre.length := by
  have hh := joinSlash_head comps hc
  rcases hpre with rfl | rfl
  · exact initialSlashes_one _ hh
  · exact initialSlashes_two _ hh

theorem normComps_skip_nil (ini : Nat) (rest acc : List Bytes) :
    normComps ini ([] :: rest) acc = normComps ini rest acc := by
  simp [normComps]

theorem normComps_plain (ini : Nat) (comps : List Bytes) :
    ∀ acc, AllPlain comps → normComps ini comps acc = acc ++ comps := by
  induction comps with
  | nil => intro acc _; simp [normComps]
  | cons c rest ih =>
    intro acc h
    have hc : Plain c := h c (by simp)
    rw [normComps, if_neg (by exact not_or.2 ⟨hc.1, hc.2.2.1⟩), if_pos (Or.inl hc.2.2.2),
      ih _ h.tail]
    simp

theorem splitSlash_filter_joinSlash (comps : List Bytes) (hc : AllPlain comps) :
    (splitSlash (joinSlash comps)).filter (fun x => !x.isEmpty) = comps := by
  by_cases e : comps = []
  · subst e; simp [joinSlash, splitSlash]
  · rw [splitSlash_joinSlash comps e (fun c h => (hc c h).nosep), List.filter_eq_self]
    intro a ha
    have := (hc a ha).ne_nil
    simpa using this

theorem normComps_good (ini : Nat) (comps acc : List Bytes) (hc : AllPlain comps) :
    normComps ini (splitSlash (joinSlash comps)) acc = acc ++ comps := by
  by_cases e : comps = []
  · subst e; simp [joinSlash, splitSlash, normComps]
  · rw [splitSlash_joinSlash comps e (fun c h => (hc c h).nosep), normComps_plain ini comps acc hc]

theorem normpath_good (pre : Bytes) (comps : List Bytes) (hpre : PreOK pre) (hc : AllPlain comps) :
    normpath (pre ++ joinSlash comps) = pre ++ joinSlash comps := by
  have hne : (pre ++ joinSlash comps).isEmpty = false := by
    rcases hpre with rfl | rfl <;> simp
  have hrep : List.replicate pre.length sep = pre := by
    rcases hpre with rfl | rfl <;> rfl
  have hsp : normComps pre.length (splitSlash (pre ++ joinSlash comps)) [] = comps := by
    rcases hpre with rfl | rfl
    · rw [List.singleton_append, splitSlash_sep, normComps_skip_nil, normComps_good _ _ _ hc]; simp
    · rw [show [sep, sep] ++ joinSlash comps = sep :: sep :: joinSlash comps from rfl,
        splitSlash_sep, splitSlash_sep, normComps_skip_nil, normComps_skip_nil,
        normComps_good _ _ _ hc]; simp
  unfold normpath
  simp only [hne, initialSlashes_good pre comps hpre hc, hsp, hrep]
  simp

theorem head_good (pre : Bytes) (r : Bytes) (hpre : PreOK pre) : (pre ++ r).head? = some sep := by
  rcases hpre with rfl | rfl <;> rfl

theorem abspath_good_id (cwd pre : Bytes) (comps : List Bytes) (hpre : PreOK pre)
    (hc : AllPlain comps) : abspath cwd (pre ++ joinSlash comps) = pre ++ joinSlash comps := by
  unfold abspath
  rw [if_pos (head_good pre _ hpre), normpath_good pre comps hpre hc]

theorem splitSlash_filter_good (pre : Bytes) (comps : List Bytes) (hpre : PreOK pre)
    (hc : AllPlain comps) :
    (splitSlash (pre ++ joinSlash comps)).filter (fun x => !x.isEmpty) = comps := by
  rcases hpre with rfl | rfl
  · rw [List.singleton_append, splitSlash_sep]
    simpa using splitSlash_filter_joinSlash comps hc
  · rw [show [sep, sep] ++ joinSlash comps = sep :: sep :: joinSlash comps from rfl,
      splitSlash_sep, splitSlash_sep]
    simpa using splitSlash_filter_joinSlash comps hc

/-! ## `relpath`, `pureParts`, `path2unix` -/

theorem commonLen_prefix (a b : List Bytes) : commonLen a (a ++ b) = a.length := by
  induction a with
  | nil => cases b <;> simp [commonLen]
  | cons x xs ih => simp [commonLen, ih]

theorem good_ne_nil (pre r : Bytes) (hpre : PreOK pre) : (pre ++ r).isEmpty = false := by
  rcases hpre with rfl | rfl <;> simp

/-- `relpath` of a path below a normalised root: the plain components after the root -/
theorem relpath_good (cwd pre : Bytes) (comps L : List Bytes) (hpre : PreOK pre)
    (hc : AllPlain comps) (hL : AllPlain L) :
    relpath cwd (pre ++ joinSlash (comps ++ L)) (pre ++ joinSlash comps) =
      some (if L = [] then [dot] else joinSlash L) := by
  have hcl := hc.append hL
  unfold relpath
  rw [good_ne_nil pre _ hpre]
  simp only [Bool.false_eq_true, if_false]
  rw [abspath_good_id cwd pre comps hpre hc, abspath_good_id cwd pre (comps ++ L) hpre hcl,
    splitSlash_filter_good pre comps hpre hc, splitSlash_filter_good pre (comps ++ L) hpre hcl,
    commonLen_prefix]
  simp only [Nat.sub_self, List.replicate_zero, List.nil_append, List.drop_left]
  cases L with
  | nil => simp
  | cons a more => simp only [join_plain a more hL]; simp

theorem pureParts_rel (p : Bytes) (h : p.head? ≠ some sep) :
    pureParts p = (splitSlash p).filter (fun x => !x.isEmpty && x ≠ [dot]) := by
  cases p with
  | nil => simp [pureParts]
  | cons x r =>
    simp only [List.head?_cons, ne_eq, Option.some.injEq, sep] at h
    unfold pureParts
    split <;> simp_all

theorem pureParts_joinSlash (L : List Bytes) (hne : L ≠ []) (hL : AllPlain L) :
    pureParts (joinSlash L) = L := by
  rw [pureParts_rel _ (joinSlash_head L hL), splitSlash_joinSlash L hne (fun c h => (hL c h).nosep),
    List.filter_eq_self]
  intro a ha
  have h1 := (hL a ha).ne_nil
  have h2 := (hL a ha).2.2.1
  simp [h1, h2]

theorem path2unix_joinSlash (L : List Bytes) (hne : L ≠ []) (hL : AllPlain L) :
    path2unix (joinSlash L) = some (joinSlash L) := by
  unfold path2unix
  rw [pureParts_joinSlash L hne hL]
  cases L with
  | nil => exact absurd rfl hne
  | cons a more => simp only [join_plain a more hL]

end Pff.Path
