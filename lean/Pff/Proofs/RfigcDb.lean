import Pff.Model.RfigcDb
import Pff.Props.C09
import Pff.Props.Csv
/-! Helper lemmas for the database file of `pff hash` (Props/RfigcDb). -/
namespace Pff.RfigcDb

open Pff.Rfigc Pff.Csv

/-! ## hex -/

def hexStep (acc : Option Nat) (c : Nat) : Option Nat :=
  match acc, hexVal c with
  | some a, some v => some (a * 16 + v)
  | _, _ => none

theorem parseHexText_eq (s : Str) : parseHexText s = s.foldl hexStep (some 0) := rfl

theorem hexVal_hexDigit (d : Nat) (h : d < 16) : hexVal (hexDigit d) = some d := by
  unfold hexVal hexDigit
  split <;> split <;> (try split) <;> (try simp only [Option.some.injEq]) <;> (try simp only [reduceCtorEq]) <;> omega

theorem parseHex_snoc (a : Str) (c x v : Nat) (ha : parseHexText a = some x) (hc : hexVal c = some v) :
    parseHexText (a ++ [c]) = some (x * 16 + v) := by
  rw [parseHexText_eq] at ha ⊢
  rw [List.foldl_append, ha]
  simp only [List.foldl_cons, List.foldl_nil, hexStep, hc]

theorem hex_roundtrip (w n : Nat) (h : n < 16 ^ w) : parseHexText (hexOf w n) = some n := by
  induction w generalizing n with
  | zero =>
    have : n = 0 := by simpa using h
    subst this; rfl
  | succ w ih =>
    have h1 : n / 16 < 16 ^ w := by
      rw [Nat.pow_succ] at h
      exact Nat.div_lt_of_lt_mul (by omega)
    have := parseHex_snoc (hexOf w (n / 16)) (hexDigit (n % 16)) (n / 16) (n % 16) (ih _ h1)
      (hexVal_hexDigit _ (Nat.mod_lt _ (by decide)))
    rw [hexOf, this]
    congr 1
    omega

/-! ## text of a string -/

theorem ofList_strOf (s : String) : String.ofList ((strOf s).map Char.ofNat) = s := by
  unfold strOf
  rw [List.map_map]
  have : (Char.ofNat ∘ Char.toNat) = id := by
    funext c; simp
  rw [this, List.map_id]
  exact String.ofList_toList

theorem natOfText_digitsOf (n : Nat) : natOfText (Pff.Entry.digitsOf n) = some n := by
  unfold natOfText
  rw [Pff.Entry.C09_size_roundtrip]

end Pff.RfigcDb

namespace Pff.RfigcDb
open Pff.Rfigc Pff.Csv

/-! ## fields by name -/

def recOf (r : Row) : DictRow := { vals := header.zip ((rowFields r).map some), extra := [] }

theorem field_path (r : Row) : field (recOf r) (strOf "path") = some (strOf r.path) := by
  have h0 : (strOf "path" == strOf "path") = true := by decide
  simp only [recOf, field, header, rowFields, List.map, List.zip_cons_cons, List.find?, h0]

theorem field_md5 (r : Row) : field (recOf r) (strOf "md5") = some (hexOf 32 r.md5) := by
  have h0 : (strOf "path" == strOf "md5") = false := by decide
  have h1 : (strOf "md5" == strOf "md5") = true := by decide
  simp only [recOf, field, header, rowFields, List.map, List.zip_cons_cons, List.find?, h0, h1]

theorem field_sha1 (r : Row) : field (recOf r) (strOf "sha1") = some (hexOf 40 r.sha1) := by
  have h0 : (strOf "path" == strOf "sha1") = false := by decide
  have h1 : (strOf "md5" == strOf "sha1") = false := by decide
  have h2 : (strOf "sha1" == strOf "sha1") = true := by decide
  simp only [recOf, field, header, rowFields, List.map, List.zip_cons_cons, List.find?, h0, h1, h2]

theorem field_last_modification_timestamp (r : Row) : field (recOf r) (strOf "last_modification_timestamp") = some (Pff.Entry.digitsOf r.mtime) := by
  have h0 : (strOf "path" == strOf "last_modification_timestamp") = false := by decide
  have h1 : (strOf "md5" == strOf "last_modification_timestamp") = false := by decide
  have h2 : (strOf "sha1" == strOf "last_modification_timestamp") = false := by decide
  have h3 : (strOf "last_modification_timestamp" == strOf "last_modification_timestamp") = true := by decide
  simp only [recOf, field, header, rowFields, List.map, List.zip_cons_cons, List.find?, h0, h1, h2, h3]

theorem field_size (r : Row) : field (recOf r) (strOf "size") = some (Pff.Entry.digitsOf r.size) := by
  have h0 : (strOf "path" == strOf "size") = false := by decide
  have h1 : (strOf "md5" == strOf "size") = false := by decide
  have h2 : (strOf "sha1" == strOf "size") = false := by decide
  have h3 : (strOf "last_modification_timestamp" == strOf "size") = false := by decide
  have h4 : (strOf "last_modification_date" == strOf "size") = false := by decide
  have h5 : (strOf "size" == strOf "size") = true := by decide
  simp only [recOf, field, header, rowFields, List.map, List.zip_cons_cons, List.find?, h0, h1, h2, h3, h4, h5]

theorem field_ext (r : Row) : field (recOf r) (strOf "ext") = some (strOf r.ext) := by
  have h0 : (strOf "path" == strOf "ext") = false := by decide
  have h1 : (strOf "md5" == strOf "ext") = false := by decide
  have h2 : (strOf "sha1" == strOf "ext") = false := by decide
  have h3 : (strOf "last_modification_timestamp" == strOf "ext") = false := by decide
  have h4 : (strOf "last_modification_date" == strOf "ext") = false := by decide
  have h5 : (strOf "size" == strOf "ext") = false := by decide
  have h6 : (strOf "ext" == strOf "ext") = true := by decide
  simp only [recOf, field, header, rowFields, List.map, List.zip_cons_cons, List.find?, h0, h1, h2, h3, h4, h5, h6]

theorem row_roundtrip (r : Row) (hm : r.md5 < 16 ^ 32) (hs : r.sha1 < 16 ^ 40) :
    parseRow (recOf r) = some r := by
  unfold parseRow
  simp only [field_path, field_md5, field_sha1, field_last_modification_timestamp, field_size, field_ext,
    hex_roundtrip _ _ hm, hex_roundtrip _ _ hs, natOfText_digitsOf, ofList_strOf,
    bind, Option.bind]

/-! ## the file -/

theorem mapM_map_some {α β : Type} (f : α → β) (g : β → Option α) (l : List α)
    (h : ∀ x ∈ l, g (f x) = some x) : (l.map f).mapM g = some l := by
  induction l with
  | nil => rfl
  | cons x xs ih =>
    rw [List.map_cons, List.mapM_cons, h x (by simp), ih (fun y hy => h y (by simp [hy]))]
    rfl

theorem header_ne : header ≠ [] := by simp [header]

theorem rowFields_length (r : Row) : (rowFields r).length = header.length := by
  simp only [rowFields, header, List.length_cons, List.length_nil]

theorem readDb_rows (rows : List Row) (h : ∀ r ∈ rows, r.md5 < 16 ^ 32 ∧ r.sha1 < 16 ^ 40) :
    readDb (writeRows (header :: rows.map rowFields)) = some rows := by
  unfold readDb
  rw [C05_db_roundtrip header (rows.map rowFields) header_ne
    (by intro f hf; obtain ⟨r, _, rfl⟩ := List.mem_map.mp hf; exact rowFields_length r)]
  rw [Option.bind_some, List.map_map]
  exact mapM_map_some _ _ rows (fun r hr => row_roundtrip r (h r hr).1 (h r hr).2)

theorem genDb_width (E : Env) (t : Tree) (hw : HashWidth E) :
    ∀ r ∈ genDb E t, r.md5 < 16 ^ 32 ∧ r.sha1 < 16 ^ 40 := by
  intro r hr
  unfold genDb at hr
  obtain ⟨f, _, rfl⟩ := List.mem_map.mp hr
  exact hw f.content

theorem readDb_append (old new : List Row)
    (ho : ∀ r ∈ old, r.md5 < 16 ^ 32 ∧ r.sha1 < 16 ^ 40) (hn : ∀ r ∈ new, r.md5 < 16 ^ 32 ∧ r.sha1 < 16 ^ 40) :
    readDb (writeRows (header :: old.map rowFields) ++ writeRows (new.map rowFields)) = some (old ++ new) := by
  rw [writeRows_append, List.cons_append, ← List.map_append]
  apply readDb_rows
  intro r hr
  rcases List.mem_append.mp hr with h | h
  · exact ho r h
  · exact hn r h

end Pff.RfigcDb
