import Pff.Model.DupDb
import Pff.Proofs.Merge
/-!
Helper lemmas on the whole run `dupWithDb` (C18): the rows are the image of the aligned groups
(`Pff.Merge.dupGroups`), so that the alignment specification (`dupGroups_spec`) transfers.
-/
namespace Pff.DupDb

open Pff.Merge

/-- the row made from one aligned group -/
def mkRow (bs : Nat) (Hf : Bytes → Nat × Nat) (db : List (String × Nat × Nat))
    (pg : Path × List (Nat × Bytes)) : Row :=
  { path := pg.1, out := (processGroupDb bs Hf (dbLookup db pg.1) pg.2).out,
    used := pg.2.map (·.1), mark := (processGroupDb bs Hf (dbLookup db pg.1) pg.2).mark,
    errcode := (processGroupDb bs Hf (dbLookup db pg.1) pg.2).errcode }

theorem dupWithDb_rows (bs : Nat) (Hf : Bytes → Nat × Nat) (db : List (String × Nat × Nat))
    (replicas : List Tree) :
    (dupWithDb bs Hf db replicas).rows = (dupGroups replicas).map (mkRow bs Hf db) := rfl

theorem dupWithDb_exit (bs : Nat) (Hf : Bytes → Nat × Nat) (db : List (String × Nat × Nat))
    (replicas : List Tree) :
    (dupWithDb bs Hf db replicas).exit =
      if (dupWithDb bs Hf db replicas).rows.any (fun r => r.errcode ≠ 0) then 1 else 0 := rfl

/-- every row comes from an aligned group -/
theorem mem_rows {bs : Nat} {Hf : Bytes → Nat × Nat} {db : List (String × Nat × Nat)}
    {replicas : List Tree} {row : Row} (h : row ∈ (dupWithDb bs Hf db replicas).rows) :
    ∃ pg ∈ dupGroups replicas, row = mkRow bs Hf db pg := by
  rw [dupWithDb_rows, List.mem_map] at h
  obtain ⟨pg, hpg, e⟩ := h
  exact ⟨pg, hpg, e.symm⟩

/-- exit status 0: no row carries an error code -/
theorem exit_zero_errcode {bs : Nat} {Hf : Bytes → Nat × Nat} {db : List (String × Nat × Nat)}
    {replicas : List Tree} (h : (dupWithDb bs Hf db replicas).exit = 0) :
    ∀ row ∈ (dupWithDb bs Hf db replicas).rows, row.errcode = 0 := by
  intro row hrow
  rw [dupWithDb_exit] at h
  by_cases ha : (dupWithDb bs Hf db replicas).rows.any (fun r => r.errcode ≠ 0) = true
  · rw [if_pos ha] at h
    cases h
  · rw [Bool.not_eq_true, List.any_eq_false] at ha
    have := ha row hrow
    simpa using this

theorem rows_path (bs : Nat) (Hf : Bytes → Nat × Nat) (db : List (String × Nat × Nat))
    (replicas : List Tree) :
    (dupWithDb bs Hf db replicas).rows.map (·.path) = (dupGroups replicas).map (·.1) := by
  rw [dupWithDb_rows, List.map_map]
  rfl

/-- C07 for the run with a database -/
theorem run_paths (bs : Nat) (Hf : Bytes → Nat × Nat) (db : List (String × Nat × Nat))
    (replicas : List Tree) (hs : ∀ t ∈ replicas, Sorted t) :
    ((dupWithDb bs Hf db replicas).rows.map (·.path)).Pairwise (fun p q => pathLt p q = true) ∧
    (∀ p, p ∈ (dupWithDb bs Hf db replicas).rows.map (·.path) ↔
        ∃ t ∈ replicas, p ∈ (walk t).map (·.1)) ∧
    (∀ row ∈ (dupWithDb bs Hf db replicas).rows, row.used = ((replicas.map walk).zipIdx).filterMap
        (fun ci => if row.path ∈ ci.1.map (·.1) then some ci.2 else none)) := by
  obtain ⟨h1, h2, h3⟩ := dupGroups_spec replicas hs
  refine ⟨by rw [rows_path]; exact h1, ?_, ?_⟩
  · intro p
    rw [rows_path, h2]
    constructor
    · rintro ⟨c, hc, hp⟩
      obtain ⟨t, ht, rfl⟩ := List.mem_map.1 hc
      exact ⟨t, ht, hp⟩
    · rintro ⟨t, ht, hp⟩
      exact ⟨walk t, List.mem_map_of_mem ht, hp⟩
  · intro row hrow
    obtain ⟨pg, hpg, rfl⟩ := mem_rows hrow
    show pg.2.map (·.1) = _
    rw [h3 pg hpg]
    exact group_indices _ _

/-- the group of a path held by some replica: its copies are the replicas' copies, in replica order -/
theorem run_group (replicas : List Tree) (hs : ∀ t ∈ replicas, Sorted t) (p : Path)
    (copies : List Bytes)
    (hcopies : copies = (replicas.map walk).filterMap
        (fun w => (w.find? (fun pc => pc.1 = p)).map (·.2)))
    (h1 : 1 ≤ copies.length) :
    ∃ pg ∈ dupGroups replicas, pg.1 = p ∧ pg.2.map (·.2) = copies := by
  obtain ⟨_, h2, h3'⟩ := dupGroups_spec replicas hs
  have hex : ∃ c ∈ replicas.map walk, p ∈ c.map (·.1) := by
    cases hc : copies with
    | nil => rw [hc] at h1; simp at h1
    | cons x rest =>
      have hx : x ∈ copies := by rw [hc]; exact List.mem_cons_self ..
      rw [hcopies, List.mem_filterMap] at hx
      obtain ⟨w, hw, hfx⟩ := hx
      cases hfind : w.find? (fun pc => pc.1 = p) with
      | none => rw [hfind] at hfx; cases hfx
      | some pc =>
        exact ⟨w, hw, List.mem_map.2
          ⟨pc, List.mem_of_find?_eq_some hfind, by simpa using List.find?_some hfind⟩⟩
  obtain ⟨pg, hpg, hpgp⟩ := List.mem_map.1 ((h2 p).2 hex)
  refine ⟨pg, hpg, hpgp, ?_⟩
  rw [h3' pg hpg, group_contents, hpgp, hcopies]

end Pff.DupDb
