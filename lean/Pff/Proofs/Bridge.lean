import Pff.Model.OpsFacade
import Pff.Props.C01
import Pff.Props.C02
import Pff.Props.C09
import Pff.Props.C11
import Pff.Proofs.RSDecode
/-!
Helper lemmas for `Pff/Props/Bridge.lean`: byte ↔ field-element conversions, and the per-block
premises of C01 / C09 for the facade `Ops`, generic over the byte field (`FacadeFacts` collects what
is needed of the facade, stated with the model's own instances; it is discharged at the two concrete
fields from the C02 / C11 theorems).
-/
namespace Pff.BridgeProofs

open Pff.GF Pff.Facade Pff.Ecc Pff.Layout Pff.RSSpec Pff.Entry Pff.Bridge Pff.RSProofs

/-! ### conversions -/
section Conv
variable {p : Params}

theorem toNat_lt (a : Elt p) : a.toNat < 256 := a.val.isLt

theorem toNat_ofNat (x : Nat) (hx : x < 256) : (Elt.ofNat p x).toNat = x := by
  show x % 256 = x
  exact Nat.mod_eq_of_lt hx

theorem ofNat_toNat (a : Elt p) : Elt.ofNat p a.toNat = a := by
  obtain ⟨⟨v, hv⟩⟩ := a
  show (⟨⟨v % 256, _⟩⟩ : Elt p) = ⟨⟨v, hv⟩⟩
  congr 2
  exact Nat.mod_eq_of_lt hv

theorem ofNat_inj (x y : Nat) (hx : x < 256) (hy : y < 256) (h : Elt.ofNat p x = Elt.ofNat p y) :
    x = y := by
  have := congrArg Elt.toNat h
  rwa [toNat_ofNat x hx, toNat_ofNat y hy] at this

theorem length_toElts (l : List Nat) : (toElts p l).length = l.length := by
  simp [toElts]

theorem length_ofElts (l : List (Elt p)) : (ofElts l).length = l.length := by
  simp [ofElts]

theorem toElts_append (a b : List Nat) : toElts p (a ++ b) = toElts p a ++ toElts p b := by
  simp [toElts]

theorem ofElts_toElts (l : List Nat) (hl : ∀ x ∈ l, x < 256) : ofElts (toElts p l) = l := by
  induction l with
  | nil => rfl
  | cons x xs ih =>
    show (Elt.ofNat p x).toNat :: ofElts (toElts p xs) = x :: xs
    rw [toNat_ofNat x (hl x List.mem_cons_self), ih (fun y hy => hl y (List.mem_cons_of_mem _ hy))]

theorem toElts_ofElts (l : List (Elt p)) : toElts p (ofElts l) = l := by
  induction l with
  | nil => rfl
  | cons x xs ih =>
    show Elt.ofNat p x.toNat :: toElts p (ofElts xs) = x :: xs
    rw [ofNat_toNat, ih]

theorem bytes_ofElts (l : List (Elt p)) : ∀ x ∈ ofElts l, x < 256 := by
  intro x hx
  obtain ⟨a, _, rfl⟩ := List.mem_map.mp hx
  exact toNat_lt a

theorem toElts_inj (a b : List Nat) (ha : ∀ x ∈ a, x < 256) (hb : ∀ x ∈ b, x < 256)
    (h : toElts p a = toElts p b) : a = b := by
  rw [← ofElts_toElts (p := p) a ha, ← ofElts_toElts (p := p) b hb, h]

theorem hdist_toElts (a b : List Nat) (ha : ∀ x ∈ a, x < 256) (hb : ∀ x ∈ b, x < 256) :
    hdist (toElts p a) (toElts p b) = hdist a b := by
  induction a generalizing b with
  | nil => rfl
  | cons x xs ih =>
    cases b with
    | nil => rfl
    | cons y ys =>
      show hdist (Elt.ofNat p x :: toElts p xs) (Elt.ofNat p y :: toElts p ys) = _
      rw [hdist_cons_cons, hdist_cons_cons,
        ih ys (fun z hz => ha z (List.mem_cons_of_mem _ hz)) (fun z hz => hb z (List.mem_cons_of_mem _ hz))]
      have hx := ha x List.mem_cons_self
      have hy := hb y List.mem_cons_self
      by_cases hxy : x = y
      · subst hxy; simp
      · have : Elt.ofNat p x ≠ Elt.ofNat p y := fun h => hxy (ofNat_inj x y hx hy h)
        simp [hxy, this]

theorem getElem?_toElts (w : List Nat) (i : Nat) : (toElts p w)[i]? = (w[i]?).map (Elt.ofNat p) := by
  simp [toElts]

theorem getElem?_toElts_eq_iff (w cw : List Nat) (hw : ∀ x ∈ w, x < 256) (hcw : ∀ x ∈ cw, x < 256)
    (i : Nat) : (toElts p w)[i]? = (toElts p cw)[i]? ↔ w[i]? = cw[i]? := by
  rw [getElem?_toElts, getElem?_toElts]
  cases h1 : w[i]? with
  | none => cases h2 : cw[i]? <;> simp
  | some a =>
    cases h2 : cw[i]? with
    | none => simp
    | some b =>
      have ha : a < 256 := hw a (List.mem_of_getElem? h1)
      have hb : b < 256 := hcw b (List.mem_of_getElem? h2)
      simp only [Option.map_some, Option.some.injEq]
      exact ⟨ofNat_inj a b ha hb, fun h => h ▸ rfl⟩

theorem getElem?_toElts_eq_some_iff (w : List Nat) (hw : ∀ x ∈ w, x < 256) (sym : Nat)
    (hsym : sym < 256) (i : Nat) :
    (toElts p w)[i]? = some (Elt.ofNat p sym) ↔ w[i]? = some sym := by
  rw [getElem?_toElts]
  cases h1 : w[i]? with
  | none => simp
  | some a =>
    have ha : a < 256 := hw a (List.mem_of_getElem? h1)
    simp only [Option.map_some, Option.some.injEq]
    exact ⟨ofNat_inj a sym ha hsym, fun h => h ▸ rfl⟩

theorem errorsOutside_toElts (w cw : List Nat) (hw : ∀ x ∈ w, x < 256) (hcw : ∀ x ∈ cw, x < 256)
    (l : List Nat) : errorsOutside (toElts p w) (toElts p cw) l = errorsOutside w cw l := by
  unfold errorsOutside
  rw [length_toElts]
  congr 1
  apply List.filter_congr
  intro i _
  have := getElem?_toElts_eq_iff (p := p) w cw hw hcw i
  simp only [ne_eq, this]

theorem erased_toElts (w : List Nat) (hw : ∀ x ∈ w, x < 256) (sym : Nat) (hsym : sym < 256) :
    (List.range (toElts p w).length).filter (fun i => (toElts p w)[i]? = some (Elt.ofNat p sym)) =
    (List.range w.length).filter (fun i => w[i]? = some sym) := by
  rw [length_toElts]
  apply List.filter_congr
  intro i _
  have := getElem?_toElts_eq_some_iff (p := p) w hw sym hsym i
  simp only [this]

end Conv

/-! ### Hamming distance against errors outside a set of positions -/

theorem hdist_le_errorsOutside {α : Type} [DecidableEq α] (w cw : List α) (h : w.length = cw.length)
    (l : List Nat) : hdist w cw ≤ errorsOutside w cw l + l.length := by
  rw [hdist_eq_filter _ _ h, errorsOutside]
  have := length_filter_le_cover (L := List.range w.length) (l := l) List.nodup_range
    (fun i => decide (w[i]? ≠ cw[i]?)) (fun i => decide (w[i]? ≠ cw[i]?)) (fun _ => false)
    (by
      intro i _ hP
      by_cases hil : i ∈ l
      · exact Or.inl hil
      · exact Or.inr (Or.inl hP))
  simp only [Bool.and_false, List.filter_false, List.length_nil, Nat.add_zero] at this
  omega

/-! ### what is needed of the facade, with the model's own instances -/

structure CodecFacts {p : Params} (c : Codec (Elt p)) : Prop where
  encLen : ∀ (msg : List (Elt p)) (k : Nat), msg.length ≤ effK c k → effK c k ≤ c.n →
    (encode c msg k).length = c.n - effK c k
  accepts : ∀ (msg : List (Elt p)) (k : Nat), msg.length ≤ effK c k → effK c k ≤ c.n →
    check c msg (encode c msg k) k = true
  detects : ∀ (msg : List (Elt p)) (k : Nat), msg.length ≤ effK c k → effK c k ≤ c.n →
    ∀ (msg' ecc' : List (Elt p)), msg'.length = msg.length → ecc'.length = c.n - effK c k →
    1 ≤ hdist (msg' ++ ecc') (msg ++ encode c msg k) →
    hdist (msg' ++ ecc') (msg ++ encode c msg k) ≤ c.n - effK c k →
    check c msg' ecc' k = false

structure DecFacts {p : Params} (c : Codec (Elt p)) (core : Core (Elt p)) : Prop where
  errors : ∀ (msg : List (Elt p)) (k : Nat), msg.length ≤ effK c k → effK c k ≤ c.n →
    ∀ (msg' ecc' : List (Elt p)), msg'.length = msg.length → ecc'.length = c.n - effK c k →
    2 * hdist (msg' ++ ecc') (msg ++ encode c msg k) ≤ c.n - effK c k →
    decode core c msg' ecc' k false (Elt.ofNat p 0) false = .ok (msg, encode c msg k)
  erasures : ∀ (msg : List (Elt p)) (k : Nat), msg.length ≤ effK c k → effK c k ≤ c.n →
    ∀ (msg' ecc' : List (Elt p)), msg'.length = msg.length → ecc'.length = c.n - effK c k →
    ∀ (ec : Elt p),
    2 * errorsOutside (msg' ++ ecc') (msg ++ encode c msg k)
                ((List.range (msg' ++ ecc').length).filter (fun i => (msg' ++ ecc')[i]? = some ec))
            + ((List.range (msg' ++ ecc').length).filter (fun i => (msg' ++ ecc')[i]? = some ec)).length
            ≤ c.n - effK c k →
    decode core c msg' ecc' k true ec false = .ok (msg, encode c msg k)

theorem codecFactsA (algo n k0 : Nat) (ha : algo = 1 ∨ algo = 2 ∨ algo = 3) (hn : n ≤ 255) :
    CodecFacts (codecA algo n k0) := by
  have hc := C11_codecA_good algo n k0 ha hn
  exact ⟨fun msg k hm hk => C02_encode_length (codecA algo n k0) hc msg k hm hk,
    fun msg k hm hk => C11_accepts (codecA algo n k0) hc msg k hm hk,
    fun msg k hm hk msg' ecc' hl he h1 h2 =>
      C11_detects (codecA algo n k0) hc msg k hm hk msg' ecc' hl he h1 h2⟩

theorem codecFactsB (n k0 : Nat) (hn : n ≤ 255) : CodecFacts (codecB n k0) := by
  have hc := C11_codecB_good n k0 hn
  exact ⟨fun msg k hm hk => C02_encode_length (codecB n k0) hc msg k hm hk,
    fun msg k hm hk => C11_accepts (codecB n k0) hc msg k hm hk,
    fun msg k hm hk msg' ecc' hl he h1 h2 =>
      C11_detects (codecB n k0) hc msg k hm hk msg' ecc' hl he h1 h2⟩

theorem decFactsA (algo n k0 : Nat) (ha : algo = 1 ∨ algo = 2 ∨ algo = 3) (hn : n ≤ 255)
    (core : Core (Elt pA)) (hW : CoreW (codecA algo n k0) core) :
    DecFacts (codecA algo n k0) core := by
  have hc := C11_codecA_good algo n k0 ha hn
  exact ⟨fun msg k hm hk msg' ecc' hl he hcap =>
      C02_decode_exact_errors (codecA algo n k0) hc core hW msg k hm hk msg' ecc' hl he hcap,
    fun msg k hm hk msg' ecc' hl he ec hcap =>
      C02_decode_exact_erasures (codecA algo n k0) hc core hW msg k hm hk msg' ecc' hl he ec hcap⟩

theorem decFactsB (n k0 : Nat) (hn : n ≤ 255)
    (core : Core (Elt pB)) (hW : CoreW (codecB n k0) core) :
    DecFacts (codecB n k0) core := by
  have hc := C11_codecB_good n k0 hn
  exact ⟨fun msg k hm hk msg' ecc' hl he hcap =>
      C02_decode_exact_errors (codecB n k0) hc core hW msg k hm hk msg' ecc' hl he hcap,
    fun msg k hm hk msg' ecc' hl he ec hcap =>
      C02_decode_exact_erasures (codecB n k0) hc core hW msg k hm hk msg' ecc' hl he ec hcap⟩

/-! ### the facade `Ops` on one block -/
section Main
variable {p : Params} (c : Codec (Elt p)) (core : Core (Elt p))

theorem effK_pos (k : Nat) (hk : 1 ≤ k) : effK c k = k := by
  unfold effK; rw [if_neg (by omega)]

/-- check true within detection range ⇒ the received message is the original -/
theorem msg_eq_of_check (hF : CodecFacts c) (msg : List (Elt p)) (k : Nat)
    (hm : msg.length ≤ effK c k) (hk : effK c k ≤ c.n)
    (msg' ecc' : List (Elt p)) (hl : msg'.length = msg.length) (he : ecc'.length = c.n - effK c k)
    (hd : hdist (msg' ++ ecc') (msg ++ encode c msg k) ≤ c.n - effK c k)
    (h : check c msg' ecc' k = true) : msg' = msg := by
  by_cases h0 : hdist (msg' ++ ecc') (msg ++ encode c msg k) = 0
  · have := eq_of_hdist_eq_zero _ _ (by simp [hl, he, hF.encLen msg k hm hk]) h0
    exact (List.append_inj this hl).1
  · have := hF.detects msg k hm hk msg' ecc' hl he (by omega) hd
    rw [this] at h; cases h

theorem enc_irrel (H : List Nat → List Nat) (en : Bool) (sym : Nat) (oe : Bool) (k : Nat) (m : List Nat) :
    (opsOfFacade c core H en sym oe).enc k m = ofElts (encode c (toElts p m) k) := rfl

theorem hdist_facade (k : Nat) (m0 msg' ecc' : List Nat)
    (hb0 : ∀ x ∈ m0, x < 256) (hbm : ∀ x ∈ msg', x < 256) (hbe : ∀ x ∈ ecc', x < 256) :
    hdist (toElts p msg' ++ toElts p ecc') (toElts p m0 ++ encode c (toElts p m0) k) =
    hdist (msg' ++ ecc') (m0 ++ ofElts (encode c (toElts p m0) k)) := by
  rw [← hdist_toElts (p := p) (msg' ++ ecc') (m0 ++ ofElts (encode c (toElts p m0) k)),
    toElts_append, toElts_append, toElts_ofElts]
  · intro x hx
    rcases List.mem_append.mp hx with h | h
    · exact hbm x h
    · exact hbe x h
  · intro x hx
    rcases List.mem_append.mp hx with h | h
    · exact hb0 x h
    · exact bytes_ofElts _ x h

theorem facade_common (hF : CodecFacts c) (H : List Nat → List Nat) (en : Bool) (sym : Nat) (oe : Bool)
    (k : Nat) (m0 msg' ecc' : List Nat)
    (hb0 : ∀ x ∈ m0, x < 256) (hbm : ∀ x ∈ msg', x < 256) (hbe : ∀ x ∈ ecc', x < 256)
    (kpos : 1 ≤ k) (kle : k ≤ c.n) (hl : msg'.length = m0.length) (hmk : m0.length ≤ k)
    (he : ecc'.length = c.n - k)
    (hdecode : decode core c (toElts p msg') (toElts p ecc') k en (Elt.ofNat p sym) oe =
      .ok (toElts p m0, encode c (toElts p m0) k))
    (hd : hdist (msg' ++ ecc') (m0 ++ (opsOfFacade c core H en sym oe).enc k m0) ≤ c.n - k) :
    (opsOfFacade c core H en sym oe).dec k msg' ecc' = some (m0, (opsOfFacade c core H en sym oe).enc k m0) ∧
    (opsOfFacade c core H en sym oe).chk k m0 ((opsOfFacade c core H en sym oe).enc k m0) = true ∧
    ((opsOfFacade c core H en sym oe).chk k msg' ecc' = true → msg' = m0) := by
  have hk' := effK_pos c k kpos
  have hm : (toElts p m0).length ≤ effK c k := by rw [hk', length_toElts]; exact hmk
  have hkn : effK c k ≤ c.n := by rw [hk']; exact kle
  refine ⟨?_, ?_, ?_⟩
  · show (match decode core c (toElts p msg') (toElts p ecc') k en (Elt.ofNat p sym) oe with
      | .ok (a, b) => some (ofElts a, ofElts b)
      | .error _ => none) = some (m0, ofElts (encode c (toElts p m0) k))
    rw [hdecode]
    show some (ofElts (toElts p m0), _) = _
    rw [ofElts_toElts m0 hb0]
  · show check c (toElts p m0) (toElts p (ofElts (encode c (toElts p m0) k))) k = true
    rw [toElts_ofElts]
    exact hF.accepts _ k hm hkn
  · intro h
    apply toElts_inj (p := p) msg' m0 hbm hb0
    refine msg_eq_of_check c hF (toElts p m0) k hm hkn (toElts p msg') (toElts p ecc')
      (by rw [length_toElts, length_toElts, hl]) (by rw [length_toElts, hk', he]) ?_ h
    rw [hdist_facade c k m0 msg' ecc' hb0 hbm hbe, hk']
    exact hd

theorem facade_errors (hF : CodecFacts c) (hD : DecFacts c core) (H : List Nat → List Nat)
    (k : Nat) (m0 msg' ecc' : List Nat)
    (hb0 : ∀ x ∈ m0, x < 256) (hbm : ∀ x ∈ msg', x < 256) (hbe : ∀ x ∈ ecc', x < 256)
    (kpos : 1 ≤ k) (kle : k ≤ c.n) (hl : msg'.length = m0.length) (hmk : m0.length ≤ k)
    (he : ecc'.length = c.n - k)
    (hcap : 2 * hdist (msg' ++ ecc') (m0 ++ (opsOfFacade c core H false 0 false).enc k m0) ≤ c.n - k) :
    (opsOfFacade c core H false 0 false).dec k msg' ecc' =
      some (m0, (opsOfFacade c core H false 0 false).enc k m0) ∧
    (opsOfFacade c core H false 0 false).chk k m0 ((opsOfFacade c core H false 0 false).enc k m0) = true ∧
    ((opsOfFacade c core H false 0 false).chk k msg' ecc' = true → msg' = m0) := by
  have hk' := effK_pos c k kpos
  apply facade_common c core hF H false 0 false k m0 msg' ecc' hb0 hbm hbe kpos kle hl hmk he
  · apply hD.errors (toElts p m0) k (by rw [hk', length_toElts]; exact hmk) (by rw [hk']; exact kle)
      (toElts p msg') (toElts p ecc') (by rw [length_toElts, length_toElts, hl])
      (by rw [length_toElts, hk', he])
    rw [hdist_facade c k m0 msg' ecc' hb0 hbm hbe, hk']
    exact hcap
  · omega

theorem facade_erasures (hF : CodecFacts c) (hD : DecFacts c core) (H : List Nat → List Nat)
    (sym : Nat) (hsym : sym < 256)
    (k : Nat) (m0 msg' ecc' : List Nat)
    (hb0 : ∀ x ∈ m0, x < 256) (hbm : ∀ x ∈ msg', x < 256) (hbe : ∀ x ∈ ecc', x < 256)
    (kpos : 1 ≤ k) (kle : k ≤ c.n) (hl : msg'.length = m0.length) (hmk : m0.length ≤ k)
    (he : ecc'.length = c.n - k)
    (hcap : 2 * errorsOutside (msg' ++ ecc') (m0 ++ (opsOfFacade c core H true sym false).enc k m0)
          ((List.range (msg' ++ ecc').length).filter (fun i => (msg' ++ ecc')[i]? = some sym))
        + ((List.range (msg' ++ ecc').length).filter (fun i => (msg' ++ ecc')[i]? = some sym)).length
        ≤ c.n - k) :
    (opsOfFacade c core H true sym false).dec k msg' ecc' =
      some (m0, (opsOfFacade c core H true sym false).enc k m0) ∧
    (opsOfFacade c core H true sym false).chk k m0 ((opsOfFacade c core H true sym false).enc k m0) = true ∧
    ((opsOfFacade c core H true sym false).chk k msg' ecc' = true → msg' = m0) := by
  have hk' := effK_pos c k kpos
  have hbw : ∀ x ∈ msg' ++ ecc', x < 256 := by
    intro x hx
    rcases List.mem_append.mp hx with h | h
    · exact hbm x h
    · exact hbe x h
  have hbc : ∀ x ∈ m0 ++ ofElts (encode c (toElts p m0) k), x < 256 := by
    intro x hx
    rcases List.mem_append.mp hx with h | h
    · exact hb0 x h
    · exact bytes_ofElts _ x h
  have hm : (toElts p m0).length ≤ effK c k := by rw [hk', length_toElts]; exact hmk
  have hkn : effK c k ≤ c.n := by rw [hk']; exact kle
  apply facade_common c core hF H true sym false k m0 msg' ecc' hb0 hbm hbe kpos kle hl hmk he
  · apply hD.erasures (toElts p m0) k hm hkn
      (toElts p msg') (toElts p ecc') (by rw [length_toElts, length_toElts, hl])
      (by rw [length_toElts, hk', he]) (Elt.ofNat p sym)
    have e1 : toElts p msg' ++ toElts p ecc' = toElts p (msg' ++ ecc') := (toElts_append _ _).symm
    have e2 : toElts p m0 ++ encode c (toElts p m0) k =
        toElts p (m0 ++ ofElts (encode c (toElts p m0) k)) := by
      rw [toElts_append, toElts_ofElts]
    rw [e1, e2, erased_toElts (msg' ++ ecc') hbw sym hsym,
      errorsOutside_toElts (msg' ++ ecc') _ hbw hbc, hk']
    exact hcap
  · have hlen : (msg' ++ ecc').length = (m0 ++ (opsOfFacade c core H true sym false).enc k m0).length := by
      rw [enc_irrel, List.length_append, List.length_append, length_ofElts, hF.encLen _ k hm hkn, hk', hl, he]
    have := hdist_le_errorsOutside (msg' ++ ecc') (m0 ++ (opsOfFacade c core H true sym false).enc k m0) hlen
      ((List.range (msg' ++ ecc').length).filter (fun i => (msg' ++ ecc')[i]? = some sym))
    omega

end Main

/-! ### from the three facts to `BlockOK` / `IntraBlockOK` -/

theorem blockOK_of (O : Ops) (fast : Bool) (mbs : Nat) (orig : List Nat) (b : AsmBlock) (e0 : List Nat)
    (hdec : O.dec b.k b.msg b.ecc = some ((orig.drop b.off).take b.msg.length, e0))
    (hacc : O.chk b.k ((orig.drop b.off).take b.msg.length) e0 = true)
    (hdet : O.chk b.k b.msg b.ecc = true → b.msg = (orig.drop b.off).take b.msg.length)
    (hcomp : eccComplete mbs b = true)
    (hhash : fast = true → O.H b.msg = b.hash → b.msg = (orig.drop b.off).take b.msg.length) :
    BlockOK O fast mbs orig b := by
  unfold BlockOK
  cases hnr : needsRepair O fast b with
  | false =>
    left
    refine ⟨?_, rfl⟩
    unfold needsRepair at hnr
    simp only [Bool.or_eq_false_iff, decide_eq_false_iff_not, ne_eq, not_not, Bool.and_eq_false_iff,
      Bool.not_eq_eq_eq_not, Bool.not_false] at hnr
    rcases hnr.2 with h | h
    · exact hhash h hnr.1
    · exact hdet h
  | true =>
    right
    exact ⟨rfl, e0, hdec, Or.inr ⟨hacc, hcomp⟩⟩

theorem intraBlockOK_of (O : Ops) (k : Nat) (orig : List Nat) (b : AsmBlock) (e0 : List Nat)
    (hdec : O.dec k b.msg b.ecc = some ((orig.drop b.off).take b.msg.length, e0))
    (hacc : O.chk k ((orig.drop b.off).take b.msg.length) e0 = true)
    (hdet : O.chk k b.msg b.ecc = true → b.msg = (orig.drop b.off).take b.msg.length) :
    IntraBlockOK O k orig b := by
  unfold IntraBlockOK
  cases hc : O.chk k b.msg b.ecc with
  | true => left; exact ⟨hdet hc, rfl⟩
  | false => right; exact ⟨rfl, e0, hdec, hacc⟩

/-! ### the original message of a block -/

theorem bytes_origMsg (orig : List Nat) (off len : Nat) (h : ∀ x ∈ orig, x < 256) :
    ∀ x ∈ (orig.drop off).take len, x < 256 :=
  fun x hx => h x (List.mem_of_mem_drop (List.mem_of_mem_take hx))

theorem length_origMsg (orig : List Nat) (off len : Nat) (h : off + len ≤ orig.length) :
    ((orig.drop off).take len).length = len := by
  rw [List.length_take, List.length_drop]; omega

/-! ### the per-block premises, generic over the byte field -/
section Final
variable {p : Params} (c : Codec (Elt p)) (core : Core (Elt p))

theorem eccComplete_of (mbs : Nat) (b : AsmBlock) (h : b.ecc.length = mbs - b.k) :
    eccComplete mbs b = true := by
  unfold eccComplete; rw [h]; simp

theorem blockOK_errors (hF : CodecFacts c) (hD : DecFacts c core) (H : List Nat → List Nat)
    (fast : Bool) (orig : List Nat) (b : AsmBlock)
    (hbo : ∀ x ∈ orig, x < 256) (hbm : ∀ x ∈ b.msg, x < 256) (hbe : ∀ x ∈ b.ecc, x < 256)
    (kpos : 1 ≤ b.k) (kle : b.k ≤ c.n) (msgle : b.msg.length ≤ b.k)
    (inside : b.off + b.msg.length ≤ orig.length) (eccLen : b.ecc.length = c.n - b.k)
    (hcap : 2 * hdist (b.msg ++ b.ecc)
        ((orig.drop b.off).take b.msg.length ++
          (opsOfFacade c core H false 0 false).enc b.k ((orig.drop b.off).take b.msg.length)) ≤ c.n - b.k)
    (hhash : fast = true → H b.msg = b.hash → b.msg = (orig.drop b.off).take b.msg.length) :
    BlockOK (opsOfFacade c core H false 0 false) fast c.n orig b := by
  have hlen := length_origMsg orig b.off b.msg.length inside
  obtain ⟨h1, h2, h3⟩ := facade_errors c core hF hD H b.k ((orig.drop b.off).take b.msg.length)
    b.msg b.ecc (bytes_origMsg orig _ _ hbo) hbm hbe kpos kle hlen.symm (by rw [hlen]; exact msgle) eccLen hcap
  exact blockOK_of _ fast c.n orig b _ h1 h2 h3 (eccComplete_of c.n b eccLen) hhash

theorem blockOK_erasures (hF : CodecFacts c) (hD : DecFacts c core) (H : List Nat → List Nat)
    (sym : Nat) (hsym : sym < 256)
    (fast : Bool) (orig : List Nat) (b : AsmBlock)
    (hbo : ∀ x ∈ orig, x < 256) (hbm : ∀ x ∈ b.msg, x < 256) (hbe : ∀ x ∈ b.ecc, x < 256)
    (kpos : 1 ≤ b.k) (kle : b.k ≤ c.n) (msgle : b.msg.length ≤ b.k)
    (inside : b.off + b.msg.length ≤ orig.length) (eccLen : b.ecc.length = c.n - b.k)
    (hcap : 2 * errorsOutside (b.msg ++ b.ecc)
          ((orig.drop b.off).take b.msg.length ++
            (opsOfFacade c core H true sym false).enc b.k ((orig.drop b.off).take b.msg.length))
          ((List.range (b.msg ++ b.ecc).length).filter (fun i => (b.msg ++ b.ecc)[i]? = some sym))
        + ((List.range (b.msg ++ b.ecc).length).filter (fun i => (b.msg ++ b.ecc)[i]? = some sym)).length
        ≤ c.n - b.k)
    (hhash : fast = true → H b.msg = b.hash → b.msg = (orig.drop b.off).take b.msg.length) :
    BlockOK (opsOfFacade c core H true sym false) fast c.n orig b := by
  have hlen := length_origMsg orig b.off b.msg.length inside
  obtain ⟨h1, h2, h3⟩ := facade_erasures c core hF hD H sym hsym b.k
    ((orig.drop b.off).take b.msg.length)
    b.msg b.ecc (bytes_origMsg orig _ _ hbo) hbm hbe kpos kle hlen.symm (by rw [hlen]; exact msgle) eccLen hcap
  exact blockOK_of _ fast c.n orig b _ h1 h2 h3 (eccComplete_of c.n b eccLen) hhash

theorem intraBlockOK_errors (hF : CodecFacts c) (hD : DecFacts c core) (H : List Nat → List Nat)
    (orig : List Nat) (b : AsmBlock)
    (hbo : ∀ x ∈ orig, x < 256) (hbm : ∀ x ∈ b.msg, x < 256) (hbe : ∀ x ∈ b.ecc, x < 256)
    (kpos : 1 ≤ b.k) (kle : b.k ≤ c.n) (msgle : b.msg.length ≤ b.k)
    (inside : b.off + b.msg.length ≤ orig.length) (eccLen : b.ecc.length = c.n - b.k)
    (hcap : 2 * hdist (b.msg ++ b.ecc)
        ((orig.drop b.off).take b.msg.length ++
          (opsOfFacade c core H false 0 false).enc b.k ((orig.drop b.off).take b.msg.length)) ≤ c.n - b.k) :
    IntraBlockOK (opsOfFacade c core H false 0 false) b.k orig b := by
  have hlen := length_origMsg orig b.off b.msg.length inside
  obtain ⟨h1, h2, h3⟩ := facade_errors c core hF hD H b.k ((orig.drop b.off).take b.msg.length)
    b.msg b.ecc (bytes_origMsg orig _ _ hbo) hbm hbe kpos kle hlen.symm (by rw [hlen]; exact msgle) eccLen hcap
  exact intraBlockOK_of _ b.k orig b _ h1 h2 h3

theorem clean_ops (hF : CodecFacts c) (H : List Nat → List Nat) (en : Bool) (sym : Nat) (oe : Bool)
    (k : Nat) (m : List Nat) (h1 : 1 ≤ m.length) (h2 : m.length ≤ k) (h3 : k ≤ c.n) :
    ((opsOfFacade c core H en sym oe).enc k m).length = c.n - k ∧
    (opsOfFacade c core H en sym oe).chk k m ((opsOfFacade c core H en sym oe).enc k m) = true := by
  have hk' := effK_pos c k (by omega)
  have hm : (toElts p m).length ≤ effK c k := by rw [hk', length_toElts]; exact h2
  have hkn : effK c k ≤ c.n := by rw [hk']; exact h3
  constructor
  · rw [enc_irrel, length_ofElts, hF.encLen _ k hm hkn, hk']
  · show check c (toElts p m) (toElts p (ofElts (encode c (toElts p m) k))) k = true
    rw [toElts_ofElts]
    exact hF.accepts _ k hm hkn

end Final

end Pff.BridgeProofs
