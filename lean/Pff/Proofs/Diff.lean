import Pff.Model.Diff
/-! Helper lemmas for C20 (resilience-tester metrics). -/
namespace Pff.Diff

/-! ## `hamming` -/

theorem hamming_nil_left (b : Bytes) : hamming [] b = 0 := by
  unfold hamming; rfl

theorem hamming_nil_right (a : Bytes) : hamming a [] = 0 := by
  cases a <;> (unfold hamming; rfl)

theorem hamming_cons (x y : Nat) (xs ys : Bytes) :
    hamming (x :: xs) (y :: ys) = (if x = y then 0 else 1) + hamming xs ys := by
  rw [hamming]

/-- `hamming` splits at any position (it is over the common length, and `take`/`drop` commute
with the truncation to the common length). -/
theorem hamming_take_drop (n : Nat) (a b : Bytes) :
    hamming a b = hamming (a.take n) (b.take n) + hamming (a.drop n) (b.drop n) := by
  induction n generalizing a b with
  | zero => simp only [List.take_zero, List.drop_zero, hamming_nil_left, Nat.zero_add]
  | succ n ih =>
    cases a with
    | nil => simp only [List.take_nil, List.drop_nil, hamming_nil_left, Nat.add_zero]
    | cons x xs =>
      cases b with
      | nil => simp only [List.take_nil, List.drop_nil, hamming_nil_right, Nat.add_zero]
      | cons y ys =>
        simp only [List.take_succ_cons, List.drop_succ_cons, hamming_cons]
        rw [ih xs ys]; omega

theorem hamming_self (a : Bytes) : hamming a a = 0 := by
  induction a with
  | nil => exact hamming_nil_left []
  | cons x xs ih => rw [hamming_cons, ih]; simp

/-- zero Hamming distance and equal lengths force equality -/
theorem eq_of_hamming_eq_zero (a b : Bytes) (hl : a.length = b.length) (h : hamming a b = 0) :
    a = b := by
  induction a generalizing b with
  | nil =>
    cases b with
    | nil => rfl
    | cons y ys => simp at hl
  | cons x xs ih =>
    cases b with
    | nil => simp at hl
    | cons y ys =>
      rw [hamming_cons] at h
      simp only [List.length_cons, Nat.add_right_cancel_iff] at hl
      by_cases hxy : x = y
      · subst hxy
        simp only [if_true, Nat.zero_add] at h
        rw [ih ys hl h]
      · simp only [if_neg hxy] at h; omega

/-! ## file metric -/

theorem take_eq_nil_iff_of_pos {bs : Nat} (hbs : 0 < bs) (a : Bytes) : a.take bs = [] ↔ a = [] := by
  cases a with
  | nil => simp
  | cons x xs =>
    cases bs with
    | zero => omega
    | succ n => simp

theorem diffBytesSpec_nil_right (a : Bytes) : diffBytesSpec a [] = (a.length, a.length) := by
  simp only [diffBytesSpec, hamming_nil_right, absDiff, List.length_nil, Nat.zero_add,
    Nat.sub_zero, Nat.zero_sub, Nat.add_zero, Nat.max_zero]

theorem diffBytesSpec_nil_left (b : Bytes) : diffBytesSpec [] b = (b.length, b.length) := by
  simp only [diffBytesSpec, hamming_nil_left, absDiff, List.length_nil, Nat.zero_add,
    Nat.sub_zero, Nat.zero_sub, Nat.zero_max]

theorem diffBytesChunked_eq_spec (bs : Nat) (hbs : 0 < bs) (a b : Bytes) :
    diffBytesChunked bs a b = diffBytesSpec a b := by
  have hbs0 : bs ≠ 0 := Nat.pos_iff_ne_zero.mp hbs
  induction hn : a.length + b.length using Nat.strongRecOn generalizing a b with
  | _ n ih =>
    rw [diffBytesChunked]
    simp only [dif_neg hbs0, take_eq_nil_iff_of_pos hbs]
    by_cases ha : a = []
    · by_cases hb : b = []
      · subst ha; subst hb
        simp [diffBytesSpec, hamming_nil_left, absDiff]
      · subst ha
        simp [hb, hbs0, diffBytesSpec_nil_left]
    · by_cases hb : b = []
      · subst hb
        simp [ha, hbs0, diffBytesSpec_nil_right]
      · have hla : 0 < a.length := List.length_pos_iff.mpr ha
        have hlb : 0 < b.length := List.length_pos_iff.mpr hb
        have hrec := ih ((a.drop bs).length + (b.drop bs).length)
          (by simp only [List.length_drop]; omega) (a.drop bs) (b.drop bs) rfl
        simp only [ha, hb, not_false_eq_true, and_false, if_false, dif_neg, hrec]
        simp only [diffBytesSpec, absDiff, List.length_take, List.length_drop]
        rw [hamming_take_drop bs a b]
        ext
        · simp only; omega
        · simp only; omega

/-! ## file identity test -/

theorem diffCountChunked_iff (bs : Nat) (hbs : 0 < bs) (a b : Bytes) :
    diffCountChunked bs a b = true ↔ a = b := by
  have hbs0 : bs ≠ 0 := Nat.pos_iff_ne_zero.mp hbs
  induction hn : a.length + b.length using Nat.strongRecOn generalizing a b with
  | _ n ih =>
    rw [diffCountChunked]
    simp only [dif_neg hbs0]
    by_cases ht : a.take bs = b.take bs
    · simp only [ht, ne_eq, not_true_eq_false, if_false, and_self]
      by_cases hb : b.take bs = []
      · have hb' : b = [] := (take_eq_nil_iff_of_pos hbs b).mp hb
        have ha' : a = [] := (take_eq_nil_iff_of_pos hbs a).mp (ht.trans hb)
        simp [ha', hb']
      · simp only [hb, dif_neg, not_false_eq_true]
        have hb' : b ≠ [] := fun h => hb ((take_eq_nil_iff_of_pos hbs b).mpr h)
        have hlb : 0 < b.length := List.length_pos_iff.mpr hb'
        have hrec := ih ((a.drop bs).length + (b.drop bs).length)
          (by simp only [List.length_drop]; omega) (a.drop bs) (b.drop bs) rfl
        constructor
        · intro hd
          rw [← List.take_append_drop bs a, ← List.take_append_drop bs b, ht, hrec.mp hd]
        · intro h; exact hrec.mpr (by rw [h])
    · simp only [ne_eq, ht, not_false_eq_true, if_true]
      constructor
      · intro h; cases h
      · intro h; exact absurd (by rw [h]) ht

/-- The metric of a file pair is zero exactly for byte-identical files. -/
theorem diffBytesSpec_fst_eq_zero_iff (a b : Bytes) : (diffBytesSpec a b).1 = 0 ↔ a = b := by
  constructor
  · intro h
    simp only [diffBytesSpec, absDiff] at h
    exact eq_of_hamming_eq_zero a b (by omega) (by omega)
  · intro h
    subst h
    simp only [diffBytesSpec, absDiff, hamming_self, Nat.sub_self, Nat.add_zero]

/-! ## folds with a pair accumulator -/

theorem foldl_pair_sum_acc {α : Type} (step : Nat × Nat → α → Nat × Nat) (f g : α → Nat)
    (hstep : ∀ acc e, step acc e = (acc.1 + f e, acc.2 + g e)) (l : List α) (acc : Nat × Nat) :
    l.foldl step acc = (acc.1 + (l.map f).sum, acc.2 + (l.map g).sum) := by
  induction l generalizing acc with
  | nil => simp only [List.foldl_nil, List.map_nil, List.sum_nil, Nat.add_zero]
  | cons e es ih =>
    simp only [List.foldl_cons, List.map_cons, List.sum_cons]
    rw [ih, hstep]
    simp only [Nat.add_assoc]

theorem foldl_pair_sum {α : Type} (step : Nat × Nat → α → Nat × Nat) (f g : α → Nat)
    (l : List α) (hstep : ∀ acc e, step acc e = (acc.1 + f e, acc.2 + g e)) :
    l.foldl step (0, 0) = ((l.map f).sum, (l.map g).sum) := by
  rw [foldl_pair_sum_acc step f g hstep]
  simp only [Nat.zero_add]

theorem foldl_pair_count_acc {α : Type} (step : Nat × Nat → α → Nat × Nat) (p : α → Bool)
    (hstep : ∀ acc e, step acc e = (if p e = true then acc.1 + 1 else acc.1, acc.2 + 1))
    (l : List α) (acc : Nat × Nat) :
    l.foldl step acc = (acc.1 + (l.filter p).length, acc.2 + l.length) := by
  induction l generalizing acc with
  | nil => simp only [List.foldl_nil, List.filter_nil, List.length_nil, Nat.add_zero]
  | cons e es ih =>
    simp only [List.foldl_cons, List.length_cons, List.filter_cons]
    rw [ih, hstep]
    cases hp : p e
    · simp only [Bool.false_eq_true, if_false]
      ext
      · simp only
      · simp only; omega
    · simp only [if_true, List.length_cons]
      ext
      · simp only; omega
      · simp only; omega

theorem foldl_pair_count {α : Type} (step : Nat × Nat → α → Nat × Nat) (p : α → Bool)
    (l : List α)
    (hstep : ∀ acc e, step acc e = (if p e = true then acc.1 + 1 else acc.1, acc.2 + 1)) :
    l.foldl step (0, 0) = ((l.filter p).length, l.length) := by
  rw [foldl_pair_count_acc step p hstep]
  simp only [Nat.zero_add]

theorem sum_map_eq_zero_iff {α : Type} (f : α → Nat) (l : List α) :
    (l.map f).sum = 0 ↔ ∀ e ∈ l, f e = 0 := by
  induction l with
  | nil => simp
  | cons e es ih =>
    simp only [List.map_cons, List.sum_cons, List.mem_cons, forall_eq_or_imp, ← ih]
    omega

end Pff.Diff
