import Pff.Proofs.RSDecode
/-! The sanity check of `ECCMan.decode` (no contract on the third-party decoder): a successful
`decode` made corrections within the capacity of the code. -/
namespace Pff.RSProofs

open Pff.RS Pff.Facade Pff.GF Pff.RSSpec

set_option linter.unusedSectionVars false

variable {F : Type} [Field F] [DecidableEq F]

theorem decode_within_radius (c : Codec F) (core : Core F) (msg ecc : List F) (k : Nat)
    (en : Bool) (ec : F) (oe : Bool) (call : CoreCall F) (m' e' : List F)
    (hprep : prepareDecode c msg ecc k en ec oe = some call)
    (hdec : decode core c msg ecc k en ec oe = .ok (m', e')) :
    ∃ mr er, m' = mr.drop call.padLen ∧ e' = er ∧
      2 * correctedErrors call.word (mr ++ er) (call.erasePos.getD []) +
        (call.erasePos.getD []).length ≤ call.nsym := by
  unfold decode at hdec
  rw [hprep] at hdec
  simp only at hdec
  split at hdec
  · cases hdec
  · next mr er hcore =>
    generalize (if c.algo = 1 ∨ c.algo = 2 then List.replicate (call.nsym - er.length) 0 ++ er
      else er) = er' at hdec
    split at hdec
    · cases hdec
    · next hg =>
      simp only [Except.ok.injEq, Prod.mk.injEq] at hdec
      exact ⟨mr, er', hdec.1.symm, hdec.2.symm, Nat.le_of_not_gt hg⟩

theorem decode_full_block_within_radius (c : Codec F) (core : Core F) (msg ecc : List F) (k : Nat)
    (en : Bool) (ec : F) (oe : Bool) (m' e' : List F)
    (hm : msg.length = effK c k) (he : ecc.length = c.n - effK c k)
    (hdec : decode core c msg ecc k en ec oe = .ok (m', e')) :
    (m' = msg ∧ e' = ecc) ∨
    2 * correctedErrors (msg ++ ecc) (m' ++ e')
        (if en || oe then (List.range (msg ++ ecc).length).filter (fun i => (msg ++ ecc)[i]? = some ec)
          else [])
      + (if en || oe then (List.range (msg ++ ecc).length).filter (fun i => (msg ++ ecc)[i]? = some ec)
          else []).length ≤ c.n - effK c k := by
  cases hprep : prepareDecode c msg ecc k en ec oe with
  | none =>
    left
    unfold decode at hdec
    rw [hprep] at hdec
    simp only [Except.ok.injEq, Prod.mk.injEq] at hdec
    exact ⟨hdec.1.symm, hdec.2.symm⟩
  | some call =>
    right
    obtain ⟨mr, er, h1, h2, h3⟩ := decode_within_radius c core msg ecc k en ec oe call m' e' hprep hdec
    rw [prepareDecode_eq] at hprep
    have hcall := Option.some.inj ((ite_eq_iff.mp hprep).resolve_left (by simp)).2
    subst hcall
    simp only [pad_snd, pad_fst, hm, Nat.sub_self, List.replicate_zero, List.nil_append,
      rpad_of_length _ _ _ he, Nat.add_zero, List.map_id', List.drop_zero] at h1 h3
    subst h1 h2
    cases hb : (en || oe)
    · simpa [hb] using h3
    · simpa [hb] using h3

end Pff.RSProofs
