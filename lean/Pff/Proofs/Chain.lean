import Pff.Props.RunC
import Pff.Props.Bridge
/-!
Helper lemmas for `Pff/Props/Chain.lean`, part 1:
* what `ParamsOK` needs of the facade `Ops` (`CleanOps`, `IntraOps`) for **every** per-call `k`
  (no `k ≤ n`, no bytes hypothesis);
* the structure of the blocks assembled from a file and a track of the generated length: the
  control flow of `assemble` / `assembleHeader` depends on the lengths only.
-/
namespace Pff.ChainProofs

open Pff.GF Pff.Facade Pff.Ecc Pff.Layout Pff.RSSpec Pff.Entry Pff.Bridge Pff.BridgeProofs

/-! ### the facade for every per-call `k` -/

/-- lengths and acceptance of a parity just produced, with the model's own instances, without any
side condition on `k` -/
structure CodecLen {p : Params} (c : Codec (Elt p)) : Prop where
  encLen : ∀ (msg : List (Elt p)) (k : Nat), (encode c msg k).length = c.n - effK c k
  accepts : ∀ (msg : List (Elt p)) (k : Nat), check c msg (encode c msg k) k = true

theorem codecLenA (algo n k0 : Nat) (ha : algo = 1 ∨ algo = 2 ∨ algo = 3) (hn : n ≤ 255) :
    CodecLen (codecA algo n k0) := by
  have hc := C11_codecA_good algo n k0 ha hn
  exact ⟨fun msg k => Pff.RSProofs.length_encode (codecA algo n k0) hc msg k,
    fun msg k => Pff.RSProofs.check_encode (codecA algo n k0) hc msg k⟩

theorem codecLenB (n k0 : Nat) (hn : n ≤ 255) : CodecLen (codecB n k0) := by
  have hc := C11_codecB_good n k0 hn
  exact ⟨fun msg k => Pff.RSProofs.length_encode (codecB n k0) hc msg k,
    fun msg k => Pff.RSProofs.check_encode (codecB n k0) hc msg k⟩

section Facade
variable {p : Params} (c : Codec (Elt p)) (core : Core (Elt p))

theorem enc_length (hF : CodecLen c) (H : List Nat → List Nat) (en : Bool) (sym : Nat) (oe : Bool)
    (k : Nat) (m : List Nat) (hk : 1 ≤ k) :
    ((opsOfFacade c core H en sym oe).enc k m).length = c.n - k := by
  rw [enc_irrel, length_ofElts, hF.encLen, effK_pos c k hk]

theorem chk_enc (hF : CodecLen c) (H : List Nat → List Nat) (en : Bool) (sym : Nat) (oe : Bool)
    (k : Nat) (m : List Nat) :
    (opsOfFacade c core H en sym oe).chk k m ((opsOfFacade c core H en sym oe).enc k m) = true := by
  show check c (toElts p m) (toElts p (ofElts (encode c (toElts p m) k))) k = true
  rw [toElts_ofElts]
  exact hF.accepts _ k

theorem cleanOps_facade (hF : CodecLen c) (H : List Nat → List Nat) (en : Bool) (sym : Nat) (oe : Bool)
    (hashLen : Nat) (hH : ∀ m, (H m).length = hashLen) (fast : Bool) :
    CleanOps (opsOfFacade c core H en sym oe) hashLen c.n fast :=
  ⟨hH, fun k m h1 h2 => enc_length c core hF H en sym oe k m (by omega),
    fun _ k m _ _ => chk_enc c core hF H en sym oe k m⟩

theorem intraOps_facade (hF : CodecLen c) (H : List Nat → List Nat) (en : Bool) (sym : Nat) (oe : Bool)
    (k : Nat) (hk : 1 ≤ k) (hpar : 1 ≤ c.n - k) :
    IntraOps (opsOfFacade c core H en sym oe) k c.n :=
  ⟨hk, hpar, fun m _ _ => enc_length c core hF H en sym oe k m hk,
    fun m _ _ => chk_enc c core hF H en sym oe k m⟩

end Facade

/-! ### blocks assembled from a track of the generated length -/

/-- length of the chunks `hash ++ parity` of a list of layout blocks -/
def chunkSum (hashLen mbs : Nat) (L : List Block) : Nat :=
  (L.map (fun blk => hashLen + (mbs - blk.k))).sum

/-- a complete block of the whole-file tool -/
structure WholeGeom (kOf : Nat → Nat) (mbs : Nat) (content track : List Nat) (b : AsmBlock) : Prop where
  kEq    : b.k = kOf b.off
  msgEq  : b.msg = (content.drop b.off).take b.k
  offLt  : b.off < content.length
  eccLen : b.ecc.length = mbs - b.k
  eccSub : ∀ x ∈ b.ecc, x ∈ track

theorem assemble_geom (kOf : Nat → Nat) (hashLen mbs : Nat) (content track : List Nat)
    (hk : ∀ x, 1 ≤ kOf x ∧ kOf x < mbs) :
    ∀ fuel cur e,
      track.length = e + chunkSum hashLen mbs (layoutGen kOf content.length fuel cur) →
      (∀ b ∈ assemble kOf hashLen mbs content track fuel cur e, WholeGeom kOf mbs content track b) ∧
      (content.length - cur < fuel →
        ((assemble kOf hashLen mbs content track fuel cur e).map (·.msg)).flatten = content.drop cur) := by
  intro fuel
  induction fuel with
  | zero =>
    intro cur e _
    refine ⟨fun b hb => ?_, fun h => ?_⟩
    · simp only [assemble, List.not_mem_nil] at hb
    · omega
  | succ fuel ih =>
    intro cur e hlen
    by_cases h : cur < content.length
    · have hkc := hk cur
      rw [layoutGen_cons kOf content.length fuel cur h] at hlen
      simp only [chunkSum, List.map_cons, List.sum_cons] at hlen
      have hmesLen : ((content.drop cur).take (kOf cur)).length = min (kOf cur) (content.length - cur) := by
        rw [List.length_take, List.length_drop]
      have h2 : ¬ ((content.drop cur).take (kOf cur)).isEmpty = true := by
        rw [List.isEmpty_iff_length_eq_zero, hmesLen]; omega
      have hbufLen : ((track.drop e).take (hashLen + (mbs - kOf cur))).length = hashLen + (mbs - kOf cur) := by
        rw [List.length_take, List.length_drop]; omega
      rw [assemble_cons kOf hashLen mbs content track fuel cur e (by omega) h2, hmesLen, hbufLen]
      obtain ⟨ih1, ih2⟩ := ih (cur + min (kOf cur) (content.length - cur)) (e + (hashLen + (mbs - kOf cur)))
        (by simp only [chunkSum]; omega)
      refine ⟨?_, ?_⟩
      · intro b hb
        rcases List.mem_cons.mp hb with rfl | hb
        · refine ⟨rfl, rfl, h, ?_, ?_⟩
          · simp only [List.length_drop, hbufLen]; omega
          · intro x hx
            exact List.mem_of_mem_drop (List.mem_of_mem_take (List.mem_of_mem_drop hx))
        · exact ih1 b hb
      · intro hf
        simp only [List.map_cons, List.flatten_cons]
        rw [ih2 (by omega)]
        have : (content.drop cur).take (kOf cur) = (content.drop cur).take (min (kOf cur) (content.length - cur)) := by
          rw [List.take_eq_take_iff, List.length_drop]; omega
        rw [this, ← List.drop_drop, List.take_append_drop]
    · rw [layoutGen_nil_of_ge kOf content.length _ cur (by omega)] at hlen
      simp only [chunkSum, List.map_nil, List.sum_nil, Nat.add_zero] at hlen
      rw [assemble_nil_of_ge kOf hashLen mbs content track _ cur e (by omega)]
      refine ⟨fun b hb => ?_, fun _ => ?_⟩
      · simp only [List.not_mem_nil] at hb
      · rw [List.drop_eq_nil_of_le (by omega)]; rfl

/-- a complete block of the header tool -/
structure HeaderGeom (k mbs readLen : Nat) (content track : List Nat) (b : AsmBlock) : Prop where
  kEq    : b.k = k
  msgEq  : b.msg = ((content.take readLen).drop b.off).take k
  offLt  : b.off < (content.take readLen).length
  eccLen : b.ecc.length = mbs - k
  eccSub : ∀ x ∈ b.ecc, x ∈ track

theorem assembleHeader_geom (k hashLen mbs readLen hs size : Nat) (content track : List Nat)
    (hk : 1 ≤ k ∧ k < mbs) (hhl : (content.take readLen).length = min hs size) :
    ∀ fuel i j,
      track.length = j + chunkSum hashLen mbs (layoutHeader k hs size fuel i) →
      (∀ b ∈ assembleHeader k hashLen mbs readLen content track fuel i j,
        HeaderGeom k mbs readLen content track b) ∧
      ((content.take readLen).length - i < fuel →
        ((assembleHeader k hashLen mbs readLen content track fuel i j).map (·.msg)).flatten =
          (content.take readLen).drop i) := by
  intro fuel
  induction fuel with
  | zero =>
    intro i j _
    refine ⟨fun b hb => ?_, fun h => ?_⟩
    · simp only [assembleHeader, List.not_mem_nil] at hb
    · omega
  | succ fuel ih =>
    intro i j hlen
    by_cases h : i < min hs size
    · rw [layoutHeader_cons k hs size fuel i h] at hlen
      simp only [chunkSum, List.map_cons, List.sum_cons] at hlen
      rw [Pff.Ecc.assembleHeader_cons k hashLen mbs readLen content track fuel i j ⟨by omega, by omega⟩]
      obtain ⟨ih1, ih2⟩ := ih (i + k) (j + hashLen + (mbs - k)) (by simp only [chunkSum]; omega)
      refine ⟨?_, ?_⟩
      · intro b hb
        rcases List.mem_cons.mp hb with rfl | hb
        · refine ⟨rfl, rfl, by simp only; omega, ?_, ?_⟩
          · simp only [List.length_take, List.length_drop]; omega
          · intro x hx
            exact List.mem_of_mem_drop (List.mem_of_mem_take hx)
        · exact ih1 b hb
      · intro hf
        simp only [List.map_cons, List.flatten_cons]
        rw [ih2 (by omega), ← List.drop_drop, List.take_append_drop]
    · rw [layoutHeader_nil_of_ge k hs size _ i (by omega)] at hlen
      rw [Pff.Ecc.assembleHeader_nil_of_ge k hashLen mbs readLen content track _ i j (by omega)]
      refine ⟨fun b hb => ?_, fun _ => ?_⟩
      · simp only [List.not_mem_nil] at hb
      · rw [List.drop_eq_nil_of_le (by omega)]; rfl

/-! ### length of the generated header track -/

theorem genTrackHeader_length (H : List Nat → List Nat) (enc : Nat → List Nat → List Nat) (k hs hashLen mbs : Nat)
    (hk : 1 ≤ k) (hH : ∀ m, (H m).length = hashLen)
    (henc : ∀ m, 1 ≤ m.length → m.length ≤ k → (enc k m).length = mbs - k) (content : List Nat) :
    (genTrackHeader H enc k hs content).length =
      chunkSum hashLen mbs (layoutHeader k hs content.length (content.length + 1) 0) := by
  unfold genTrackHeader chunkSum
  rw [List.length_flatten, List.map_map]
  apply Pff.Layout.sum_map_eq
  intro blk hblk
  obtain ⟨h1, h2, h3⟩ := layoutHeader_mem k hs content.length _ _ blk hblk
  have hsl := slice_length content blk
  simp only [Function.comp, List.length_append, hH]
  rw [h1, henc _ (by omega) (by omega)]

/-! ### from lengths and bytes to `WithinCapacity` -/

open Pff.Run in
theorem withinCapacity_whole (O : Ops) (P : Pff.Run.Params) (d : Damaged) (htool : P.tool = .whole)
    (hk : ∀ size x, 1 ≤ P.kOfFor size x ∧ P.kOfFor size x < P.mbs)
    (hops : CleanOps O P.hashLen P.mbs P.fast)
    (lenNow : d.now.length = d.orig.length)
    (lenTrack : d.trackD.length = (genTrackFor O P d.orig).length)
    (bo : IsBytes d.orig) (bn : IsBytes d.now) (bt : IsBytes d.trackD)
    (hblk : ∀ b ∈ assemble (P.kOfFor d.orig.length) P.hashLen P.mbs d.now d.trackD (d.now.length + 1) 0 0,
      BlockGeom P.mbs d.orig b → BlockOK O P.fast P.mbs d.orig b) :
    WithinCapacity O P d := by
  have htl : d.trackD.length = 0 + chunkSum P.hashLen P.mbs
      (layoutGen (P.kOfFor d.orig.length) d.now.length (d.now.length + 1) 0) := by
    rw [lenTrack]
    simp only [genTrackFor, htool]
    rw [Pff.Run.C.genTrack_length O.H O.enc _ P.hashLen P.mbs (fun x => (hk _ x).1) hops.hashLen hops.encLen d.orig,
      lenNow, Nat.zero_add]
    rfl
  obtain ⟨g1, g2⟩ := assemble_geom (P.kOfFor d.orig.length) P.hashLen P.mbs d.now d.trackD (hk _)
    (d.now.length + 1) 0 0 htl
  refine ⟨lenNow, lenTrack, ?_⟩
  simp only [htool]
  refine ⟨by rw [g2 (by omega)]; rfl, fun b hb => hblk b hb ?_⟩
  have g := g1 b hb
  have hkk := hk d.orig.length b.off
  have hml : b.msg.length = min b.k (d.now.length - b.off) := by
    rw [g.msgEq, List.length_take, List.length_drop]
  have hoff := g.offLt
  refine ⟨bo, ?_, fun x hx => bt x (g.eccSub x hx), ?_, ?_, ?_, ?_, ?_, g.eccLen⟩
  · intro x hx
    rw [g.msgEq] at hx
    exact bn x (List.mem_of_mem_drop (List.mem_of_mem_take hx))
  · rw [g.kEq]; exact hkk.1
  · rw [g.kEq]; omega
  · rw [hml, g.kEq]; omega
  · rw [hml]; omega
  · rw [hml]; omega

open Pff.Run in
theorem withinCapacity_header (O : Ops) (P : Pff.Run.Params) (d : Damaged) (htool : P.tool = .header)
    (hk : 1 ≤ P.kMain ∧ P.kMain < P.mbs)
    (hops : CleanOps O P.hashLen P.mbs P.fast)
    (lenNow : d.now.length = d.orig.length)
    (lenTrack : d.trackD.length = (genTrackFor O P d.orig).length)
    (bo : IsBytes d.orig) (bn : IsBytes d.now) (bt : IsBytes d.trackD)
    (hblk : ∀ b ∈ assembleHeader P.kMain P.hashLen P.mbs
        (if 0 < d.orig.length ∧ d.orig.length < P.headerSize then d.orig.length else P.headerSize)
        d.now d.trackD (d.now.length + 1) 0 0,
      BlockGeom P.mbs d.orig b → BlockOK O P.fast P.mbs d.orig b) :
    WithinCapacity O P d := by
  refine ⟨lenNow, lenTrack, ?_⟩
  simp only [htool]
  generalize hrl : (if 0 < d.orig.length ∧ d.orig.length < P.headerSize then d.orig.length else P.headerSize) = readLen
    at hblk ⊢
  have hhl : (d.now.take readLen).length = min P.headerSize d.orig.length := by
    rw [List.length_take, lenNow, ← hrl]
    split <;> omega
  have htl : d.trackD.length = 0 + chunkSum P.hashLen P.mbs
      (layoutHeader P.kMain P.headerSize d.orig.length (d.now.length + 1) 0) := by
    rw [lenTrack]
    simp only [genTrackFor, htool]
    rw [genTrackHeader_length O.H O.enc P.kMain P.headerSize P.hashLen P.mbs hk.1 hops.hashLen
      (hops.encLen P.kMain) d.orig, lenNow, Nat.zero_add]
  obtain ⟨g1, g2⟩ := assembleHeader_geom P.kMain P.hashLen P.mbs readLen P.headerSize d.orig.length
    d.now d.trackD hk hhl (d.now.length + 1) 0 0 htl
  refine ⟨by rw [g2 (by rw [List.length_take]; omega)]; rfl, fun b hb => hblk b hb ?_⟩
  have g := g1 b hb
  have hml : b.msg.length = min P.kMain ((d.now.take readLen).length - b.off) := by
    rw [g.msgEq, List.length_take, List.length_drop]
  have hoff := g.offLt
  have hle : (d.now.take readLen).length ≤ d.orig.length := by rw [hhl]; omega
  refine ⟨bo, ?_, fun x hx => bt x (g.eccSub x hx), ?_, ?_, ?_, ?_, ?_, ?_⟩
  · intro x hx
    rw [g.msgEq] at hx
    exact bn x (List.mem_of_mem_take (List.mem_of_mem_drop (List.mem_of_mem_take hx)))
  · rw [g.kEq]; exact hk.1
  · rw [g.kEq]; omega
  · rw [hml]; omega
  · rw [hml, g.kEq]; omega
  · rw [hml]; omega
  · rw [g.eccLen, g.kEq]

/-! ### the chain, generic over the byte field -/

open Pff.Run Pff.Scan

/-- the blocks the tool assembles for a damaged file (= `Pff.Chain.blocksOf`) -/
def blocksOf' (P : Pff.Run.Params) (d : Damaged) : List AsmBlock :=
  match P.tool with
  | .header =>
    let readLen := if 0 < d.orig.length ∧ d.orig.length < P.headerSize then d.orig.length else P.headerSize
    assembleHeader P.kMain P.hashLen P.mbs readLen d.now d.trackD (d.now.length + 1) 0 0
  | .whole => assemble (P.kOfFor d.orig.length) P.hashLen P.mbs d.now d.trackD (d.now.length + 1) 0 0

theorem paramsOK_facade {p : Pff.GF.Params} (c : Codec (Elt p)) (core : Core (Elt p)) (hL : CodecLen c)
    (H : List Nat → List Nat) (hashLen : Nat) (hH : ∀ m, (H m).length = hashLen)
    (P : Pff.Run.Params) (hn : c.n = P.mbs)
    (gHash : P.hashLen = hashLen) (gMain : 1 ≤ P.kMain ∧ P.kMain < P.mbs)
    (gOf : ∀ size x, 1 ≤ P.kOfFor size x ∧ P.kOfFor size x < P.mbs)
    (gIntra : 1 ≤ P.kIntra ∧ P.kIntra < P.mbs) :
    ParamsOK (opsOfFacade c core H false 0 false) P := by
  refine ⟨gMain.1, fun s x => (gOf s x).1, by omega, fun s x => by have := gOf s x; omega, ?_, ?_⟩
  · rw [gHash, ← hn]
    exact cleanOps_facade c core hL H false 0 false hashLen hH P.fast
  · rw [← hn]
    exact intraOps_facade c core hL H false 0 false P.kIntra gIntra.1 (by omega)

theorem chain_generic {p : Pff.GF.Params} (c : Codec (Elt p)) (core : Core (Elt p))
    (hL : CodecLen c) (hF : CodecFacts c) (hD : DecFacts c core)
    (H : List Nat → List Nat) (hashLen : Nat) (hH : ∀ m, (H m).length = hashLen)
    (P : Pff.Run.Params) (hn : c.n = P.mbs)
    (gHash : P.hashLen = hashLen) (gMain : 1 ≤ P.kMain ∧ P.kMain < P.mbs)
    (gOf : ∀ size x, 1 ≤ P.kOfFor size x ∧ P.kOfFor size x < P.mbs)
    (gIntra : 1 ≤ P.kIntra ∧ P.kIntra < P.mbs)
    (O : Ops) (hO : O = opsOfFacade c core H false 0 false)
    (pre : List Nat) (ds : List Damaged)
    (hfiles : ∀ d ∈ ds, FileOK O P d.path d.orig)
    (hdistinct : (ds.map (·.path)).Nodup)
    (hcap : ∀ d ∈ ds, d.now.length = d.orig.length ∧ d.trackD.length = (genTrackFor O P d.orig).length ∧
      IsBytes d.orig ∧ IsBytes d.now ∧ IsBytes d.trackD ∧
      ∀ b ∈ blocksOf' P d,
        2 * hdist (b.msg ++ b.ecc) (origMsg d.orig b ++ O.enc b.k (origMsg d.orig b)) ≤ P.mbs - b.k ∧
        (P.fast = true → O.H b.msg = b.hash → b.msg = origMsg d.orig b))
    (hacc : NoAccidental pre marker (ds.map (fun d => bodyWith O P d.path d.orig d.trackD))) :
    (run O P (ds.map (fun d => (d.path, d.now)))
        (build pre marker (ds.map (fun d => bodyWith O P d.path d.orig d.trackD)))).outcomes.length = ds.length ∧
    (∀ i (hi : i < ds.length), ∃ o,
        (run O P (ds.map (fun d => (d.path, d.now)))
          (build pre marker (ds.map (fun d => bodyWith O P d.path d.orig d.trackD)))).outcomes[i]? = some o ∧
        o.path = ds[i].path ∧ o.skipped = false ∧ o.processed = true ∧
        (protectedDamaged P ds[i] →
          o.result = { output := some (restored P ds[i]), corrupted := true, complete := true, partialRep := false } ∧
          o.effect = .wrote (restored P ds[i])) ∧
        (∀ out, o.result.output = some out → out = restored P ds[i])) ∧
    exitOf (run O P (ds.map (fun d => (d.path, d.now)))
        (build pre marker (ds.map (fun d => bodyWith O P d.path d.orig d.trackD)))) = 0 := by
  subst hO
  have hPOK := paramsOK_facade c core hL H hashLen hH P hn gHash gMain gOf gIntra
  have hblock : ∀ d ∈ ds, ∀ b ∈ blocksOf' P d, BlockGeom P.mbs d.orig b →
      BlockOK (opsOfFacade c core H false 0 false) P.fast P.mbs d.orig b := by
    intro d hd b hb hg
    obtain ⟨_, _, _, _, _, hb6⟩ := hcap d hd
    obtain ⟨hc1, hc2⟩ := hb6 b hb
    have := blockOK_errors c core hF hD H P.fast d.orig b hg.bytesOrig hg.bytesMsg hg.bytesEcc hg.kpos
      (by rw [hn]; exact hg.kle) hg.msgle hg.inside (by rw [hn]; exact hg.eccLen)
      (by rw [hn]; exact hc1) hc2
    rw [hn] at this
    exact this
  have hWC : ∀ d ∈ ds, WithinCapacity (opsOfFacade c core H false 0 false) P d := by
    intro d hd
    obtain ⟨hb1, hb2, hb3, hb4, hb5, _⟩ := hcap d hd
    cases htool : P.tool with
    | header =>
      refine withinCapacity_header _ P d htool gMain hPOK.ops hb1 hb2 hb3 hb4 hb5 (fun b hb hg => ?_)
      exact hblock d hd b (by simp only [blocksOf', htool]; exact hb) hg
    | whole =>
      refine withinCapacity_whole _ P d htool gOf hPOK.ops hb1 hb2 hb3 hb4 hb5 (fun b hb hg => ?_)
      exact hblock d hd b (by simp only [blocksOf', htool]; exact hb) hg
  have h := C01_run_within_capacity _ P pre ds hPOK hfiles hdistinct hWC hacc
  refine ⟨h.1, fun i hi => ?_, h.2.2⟩
  obtain ⟨o, ho1, ho2, ho3, ho4, ho5, ho6, _⟩ := h.2.1 i hi
  exact ⟨o, ho1, ho2, ho3, ho4, ho5, ho6⟩

end Pff.ChainProofs
