import Pff.Model.Entry
/-! Helper lemmas for C15 (index companion). -/
namespace Pff.Entry.B
open Pff.Entry Pff.Ecc Pff.Layout

end Pff.Entry.B
