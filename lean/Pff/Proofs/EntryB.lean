import Pff.Model.Entry
/-! Helper lemmas for C15 (index companion). -/
namespace Pff.Entry.B
open Pff.Entry Pff.Ecc Pff.Layout


theorem marker_length : marker.length = 10 := rfl
theorem delim_length : delim.length = 5 := rfl
theorem markerOfKind_one : markerOfKind 1 = some marker := rfl
theorem markerOfKind_two : markerOfKind 2 = some delim := rfl

theorem markerOfKind_some {k : Nat} {m : Bytes} (h : markerOfKind k = some m) :
    (k = 1 ∧ m = marker) ∨ (k = 2 ∧ m = delim) := by
  unfold markerOfKind at h
  split at h
  · left; exact ⟨‹_›, (Option.some.inj h).symm⟩
  · split at h
    · right; exact ⟨‹_›, (Option.some.inj h).symm⟩
    · cases h

/-- the step function of `recoverIdx` -/
def step (O : Ops) (kIdx : Nat) : Option Bytes → Bytes → Option Bytes :=
  fun acc block => match acc with
    | none => none
    | some f => match decodeRecord O kIdx block with
      | none => some f
      | some r => applyRecord f r

theorem recoverIdx_eq (O : Ops) (nIdx kIdx : Nat) (idx file : Bytes) :
    recoverIdx O nIdx kIdx idx file = (chunks nIdx idx.length idx).foldl (step O kIdx) (some file) := rfl

theorem foldl_step_none (O : Ops) (kIdx : Nat) (bs : List Bytes) :
    bs.foldl (step O kIdx) none = none := by
  induction bs with
  | nil => rfl
  | cons b bs ih => simpa [List.foldl_cons, step] using ih

theorem foldl_bind_none (rs : List Bytes) :
    rs.foldl (fun acc r => acc.bind (fun f => applyRecord f r)) (none : Option Bytes) = none := by
  induction rs with
  | nil => rfl
  | cons b bs ih => simpa [List.foldl_cons] using ih

theorem foldl_step_eq (O : Ops) (kIdx : Nat) (bs : List Bytes) (acc : Option Bytes) :
    bs.foldl (step O kIdx) acc =
      (bs.filterMap (decodeRecord O kIdx)).foldl
        (fun acc r => acc.bind (fun f => applyRecord f r)) acc := by
  induction bs generalizing acc with
  | nil => rfl
  | cons b bs ih =>
    cases acc with
    | none =>
      rw [List.foldl_cons]
      have : step O kIdx none b = none := rfl
      rw [this, foldl_step_none, foldl_bind_none]
    | some f =>
      rw [List.foldl_cons, ih]
      cases h : decodeRecord O kIdx b with
      | none => simp [step, h]
      | some r => simp [step, h]

theorem unusable (O : Ops) (kIdx : Nat) (block : Bytes)
    (hchk : O.chk kIdx (block.take kIdx) (block.drop kIdx) = false)
    (hdec : O.dec kIdx (block.take kIdx) (block.drop kIdx) = none ∨
            ∃ m e, O.dec kIdx (block.take kIdx) (block.drop kIdx) = some (m, e) ∧ O.chk kIdx m e = false) :
    decodeRecord O kIdx block = none := by
  unfold decodeRecord
  rcases hdec with h | ⟨m, e, h, hc⟩
  · simp [hchk, h]
  · simp [hchk, h, hc]

theorem beNat_be8 (pos : Nat) (h : pos < 256 ^ 8) :
    beNat ((List.range 8).map (fun i => (pos / 256 ^ (7 - i)) % 256)) = pos := by
  have hr : List.range 8 = [0, 1, 2, 3, 4, 5, 6, 7] := by decide
  rw [hr]
  simp only [List.map, beNat, List.foldl]
  simp at h ⊢
  omega


theorem filterMap_of_map_eq {α β γ : Type} (f : α → Option β) (g : γ → β) :
    ∀ (l : List α) (l' : List γ), l.map f = l'.map (fun x => some (g x)) →
      l.filterMap f = l'.map g := by
  intro l
  induction l with
  | nil =>
    intro l' h
    cases l' with
    | nil => rfl
    | cons _ _ => cases h
  | cons a l ih =>
    intro l' h
    cases l' with
    | nil => cases h
    | cons c l' =>
      rw [List.map_cons, List.map_cons] at h
      injection h with h1 h2
      rw [List.filterMap_cons, h1, List.map_cons, ih l' h2]

theorem take_drop_mid (a m b : Bytes) (n : Nat) (h : n = a.length) :
    ((a ++ m ++ b).drop n).take m.length = m := by
  subst h
  rw [List.append_assoc, List.drop_left, List.take_left]

def GoodRec (file : Bytes) (ko : Nat × Nat) : Prop :=
  ∃ m, markerOfKind ko.1 = some m ∧ (file.drop ko.2).take m.length = m

theorem genEcc_cons (pre : Bytes) (p : EntryParts) (ps : List EntryParts) :
    genEcc pre (p :: ps) = genEcc (pre ++ genEntry p) ps := by
  simp [genEcc, List.append_assoc]

theorem genIdx_cons (pre : Bytes) (p : EntryParts) (ps : List EntryParts) :
    genIdx pre.length (p :: ps) =
      (markerOffsets p).map (fun ko => (ko.1, pre.length + ko.2)) ++
        genIdx (pre ++ genEntry p).length ps := by
  rw [List.length_append]; rfl

theorem head_good (pre : Bytes) (p : EntryParts) (rest : Bytes) :
    ∀ ko ∈ markerOffsets p, GoodRec (pre ++ genEntry p ++ rest) (ko.1, pre.length + ko.2) := by
  intro ko hko
  simp only [markerOffsets, List.mem_cons, List.not_mem_nil, or_false] at hko
  rcases hko with rfl | rfl | rfl | rfl | rfl
  · refine ⟨marker, rfl, ?_⟩
    have : pre ++ genEntry p ++ rest =
        pre ++ marker ++ (p.path ++ delim ++ p.sizeTxt ++ delim ++ p.pathEcc ++ delim ++ p.sizeEcc ++ delim ++ p.track ++ rest) := by
      simp [genEntry, List.append_assoc]
    rw [this]
    exact take_drop_mid _ _ _ _ (by simp)
  · refine ⟨delim, rfl, ?_⟩
    have : pre ++ genEntry p ++ rest =
        (pre ++ marker ++ p.path) ++ delim ++ (p.sizeTxt ++ delim ++ p.pathEcc ++ delim ++ p.sizeEcc ++ delim ++ p.track ++ rest) := by
      simp [genEntry, List.append_assoc]
    rw [this]
    exact take_drop_mid _ _ _ _ (by simp only [List.length_append]; omega)
  · refine ⟨delim, rfl, ?_⟩
    have : pre ++ genEntry p ++ rest =
        (pre ++ marker ++ p.path ++ delim ++ p.sizeTxt) ++ delim ++ (p.pathEcc ++ delim ++ p.sizeEcc ++ delim ++ p.track ++ rest) := by
      simp [genEntry, List.append_assoc]
    rw [this]
    exact take_drop_mid _ _ _ _ (by simp only [List.length_append]; omega)
  · refine ⟨delim, rfl, ?_⟩
    have : pre ++ genEntry p ++ rest =
        (pre ++ marker ++ p.path ++ delim ++ p.sizeTxt ++ delim ++ p.pathEcc) ++ delim ++ (p.sizeEcc ++ delim ++ p.track ++ rest) := by
      simp [genEntry, List.append_assoc]
    rw [this]
    exact take_drop_mid _ _ _ _ (by simp only [List.length_append]; omega)
  · refine ⟨delim, rfl, ?_⟩
    have : pre ++ genEntry p ++ rest =
        (pre ++ marker ++ p.path ++ delim ++ p.sizeTxt ++ delim ++ p.pathEcc ++ delim ++ p.sizeEcc) ++ delim ++ (p.track ++ rest) := by
      simp [genEntry, List.append_assoc]
    rw [this]
    exact take_drop_mid _ _ _ _ (by simp only [List.length_append]; omega)

theorem offsets (pre : Bytes) (es : List EntryParts) :
    (genIdx pre.length es).length = 5 * es.length ∧
    ∀ ko ∈ genIdx pre.length es, GoodRec (genEcc pre es) ko := by
  induction es generalizing pre with
  | nil => exact ⟨rfl, fun ko h => by cases h⟩
  | cons p ps ih =>
    obtain ⟨ihl, ihg⟩ := ih (pre ++ genEntry p)
    rw [genIdx_cons, genEcc_cons]
    constructor
    · rw [List.length_append, ihl, List.length_map]
      simp [markerOffsets]; omega
    · intro ko hko
      rcases List.mem_append.1 hko with h | h
      · obtain ⟨ko', hk', rfl⟩ := List.mem_map.1 h
        have := head_good pre p ((ps.map genEntry).flatten) ko' hk'
        simpa [genEcc] using this
      · exact ihg ko h

theorem markerOfKind_pos {k : Nat} {m : Bytes} (h : markerOfKind k = some m) : 0 < m.length := by
  rcases markerOfKind_some h with ⟨_, rfl⟩ | ⟨_, rfl⟩
  · rw [marker_length]; omega
  · rw [delim_length]; omega

theorem span_le {file m : Bytes} {pos : Nat} (hm : 0 < m.length)
    (h : (file.drop pos).take m.length = m) : pos + m.length ≤ file.length := by
  have := congrArg List.length h
  rw [List.length_take, List.length_drop] at this
  omega

theorem getElem?_span {l m : Bytes} {pos : Nat} (h : (l.drop pos).take m.length = m)
    {j : Nat} (h1 : pos ≤ j) (h2 : j < pos + m.length) : l[j]? = m[j - pos]? := by
  have : m[j - pos]? = ((l.drop pos).take m.length)[j - pos]? := by rw [h]
  rw [this, List.getElem?_take, if_pos (by omega), List.getElem?_drop]
  congr 1; omega

theorem applyRecord_rec (g : Bytes) (kind pos : Nat) (m : Bytes)
    (hm : markerOfKind kind = some m) (hpos : pos < 256 ^ 8) (hin : pos + m.length ≤ g.length) :
    applyRecord g ((48 + kind) :: (List.range 8).map (fun i => (pos / 256 ^ (7 - i)) % 256)) =
      some (if (g.drop pos).take m.length = m then g else writeAt g pos m) := by
  have hk : kind = 1 ∨ kind = 2 := by
    rcases markerOfKind_some hm with ⟨h, _⟩ | ⟨h, _⟩ <;> simp [h]
  have hd : isDigit (48 + kind) = true := by
    rcases hk with rfl | rfl <;> decide
  have hk' : 48 + kind - 48 = kind := by omega
  simp only [applyRecord, hd, beNat_be8 pos hpos, hk', Bool.not_true, Bool.false_eq_true, if_false,
    hm]
  rw [if_neg (by omega)]
  split <;> rfl

theorem writeAt_length (g m : Bytes) (pos : Nat) (h : pos + m.length ≤ g.length) :
    (writeAt g pos m).length = g.length := by
  unfold writeAt
  rw [if_pos (by omega)]
  simp only [List.length_append, List.length_take, List.length_drop]
  omega

theorem writeAt_getElem?_in (g m : Bytes) (pos j : Nat) (h : pos + m.length ≤ g.length)
    (h1 : pos ≤ j) (h2 : j < pos + m.length) : (writeAt g pos m)[j]? = m[j - pos]? := by
  unfold writeAt
  rw [if_pos (by omega)]
  have hl : (g.take pos).length = pos := by rw [List.length_take]; omega
  rw [List.append_assoc, List.getElem?_append_right (by omega), hl,
    List.getElem?_append_left (by omega)]

theorem writeAt_getElem?_out (g m : Bytes) (pos j : Nat) (h : pos + m.length ≤ g.length)
    (h1 : ¬ (pos ≤ j ∧ j < pos + m.length)) : (writeAt g pos m)[j]? = g[j]? := by
  unfold writeAt
  rw [if_pos (by omega)]
  have hl : (g.take pos).length = pos := by rw [List.length_take]; omega
  by_cases hj : j < pos
  · rw [List.append_assoc, List.getElem?_append_left (by omega), List.getElem?_take, if_pos hj]
  · rw [List.getElem?_append_right (by simp only [List.length_append]; omega),
      List.getElem?_drop]
    congr 1
    simp only [List.length_append]; omega

theorem fold_recover (file : Bytes) (hsmall : file.length < 256 ^ 8) :
    ∀ (recs : List (Nat × Nat)) (g : Bytes),
      (∀ ko ∈ recs, GoodRec file ko) →
      g.length = file.length →
      (∀ j, j < file.length →
        (∀ ko ∈ recs, ∀ m, markerOfKind ko.1 = some m → ¬ (ko.2 ≤ j ∧ j < ko.2 + m.length)) →
        g[j]? = file[j]?) →
      (recs.map (fun ko => (48 + ko.1) ::
          (List.range 8).map (fun i => (ko.2 / 256 ^ (7 - i)) % 256))).foldl
        (fun acc r => acc.bind (fun f => applyRecord f r)) (some g) = some file := by
  intro recs
  induction recs with
  | nil =>
    intro g _ hlen hag
    simp only [List.map_nil, List.foldl_nil]
    congr 1
    apply List.ext_getElem?
    intro j
    by_cases hj : j < file.length
    · exact hag j hj (fun ko h => by cases h)
    · rw [List.getElem?_eq_none (by omega), List.getElem?_eq_none (by omega)]
  | cons ko recs ih =>
    intro g hgood hlen hag
    obtain ⟨m, hm, hspan⟩ := hgood ko (List.mem_cons_self ..)
    have hmpos := markerOfKind_pos hm
    have hle := span_le hmpos hspan
    rw [List.map_cons, List.foldl_cons, Option.bind_some,
      applyRecord_rec g ko.1 ko.2 m hm (by omega) (by omega)]
    apply ih
    · exact fun ko' h => hgood ko' (List.mem_cons_of_mem _ h)
    · split
      · exact hlen
      · rw [writeAt_length _ _ _ (by omega), hlen]
    · intro j hj hout
      by_cases hin : ko.2 ≤ j ∧ j < ko.2 + m.length
      · rw [getElem?_span hspan hin.1 hin.2]
        split
        · next heq => exact getElem?_span heq hin.1 hin.2
        · exact writeAt_getElem?_in _ _ _ _ (by omega) hin.1 hin.2
      · have hg : g[j]? = file[j]? := by
          apply hag j hj
          intro ko' hmem m' hm'
          rcases List.mem_cons.1 hmem with rfl | hmem
          · rw [hm] at hm'; cases hm'; exact hin
          · exact hout ko' hmem m' hm'
        rw [← hg]
        split
        · rfl
        · exact writeAt_getElem?_out _ _ _ _ (by omega) hin

end Pff.Entry.B
