import Pff.Model.Scan
/-! Helper lemmas for C14 (entry scanning). -/
namespace Pff.Scan

end Pff.Scan
