import Pff.Model.Scan
/-! Helper lemmas for C14 (entry scanning). -/
namespace Pff.Scan

/-! ## `find` -/

theorem find_eq_some_iff {sub buf : Bytes} {b i : Nat} :
    find sub buf b = some i ↔
      sub.isPrefixOf (buf.drop i) = true ∧ b ≤ i ∧ i ≤ buf.length ∧
        ∀ j, b ≤ j → j < i → sub.isPrefixOf (buf.drop j) = false := by
  unfold find
  rw [List.find?_range'_eq_some]
  simp only [List.mem_range', Bool.not_eq_true', Nat.one_mul]
  constructor
  · rintro ⟨h1, ⟨k, hk, rfl⟩, h3⟩
    exact ⟨h1, by omega, by omega, h3⟩
  · rintro ⟨h1, h2, h3, h4⟩
    exact ⟨h1, ⟨i - b, by omega, by omega⟩, h4⟩

theorem find_eq_none_iff {sub buf : Bytes} {b : Nat} :
    find sub buf b = none ↔
      ∀ j, b ≤ j → j ≤ buf.length → sub.isPrefixOf (buf.drop j) = false := by
  unfold find
  rw [List.find?_range'_eq_none]
  simp only [Bool.not_eq_true']
  constructor
  · intro h j h1 h2
    exact h j h1 (by omega)
  · intro h j h1 h2
    exact h j h1 (by omega)

/-- an occurrence of a nonempty `sub` at `i` lies inside the buffer -/
theorem occ_bound {sub buf : Bytes} {i : Nat}
    (h : sub.isPrefixOf (buf.drop i) = true) : i + sub.length ≤ buf.length ∨ sub.length = 0 := by
  rw [List.isPrefixOf_iff_prefix] at h
  have := h.length_le
  simp only [List.length_drop] at this
  omega

theorem occ_le {sub buf : Bytes} {i : Nat} (hm : 0 < sub.length)
    (h : sub.isPrefixOf (buf.drop i) = true) : i + sub.length ≤ buf.length := by
  have := occ_bound h
  omega

/-- for a nonempty needle the upper bounds are automatic -/
theorem find_eq_some_iff' {sub buf : Bytes} {b i : Nat} (hm : 0 < sub.length) :
    find sub buf b = some i ↔
      sub.isPrefixOf (buf.drop i) = true ∧ b ≤ i ∧
        ∀ j, b ≤ j → j < i → sub.isPrefixOf (buf.drop j) = false := by
  rw [find_eq_some_iff]
  constructor
  · rintro ⟨h1, h2, _, h4⟩
    exact ⟨h1, h2, h4⟩
  · rintro ⟨h1, h2, h4⟩
    have := occ_le hm h1
    exact ⟨h1, h2, by omega, h4⟩

theorem find_eq_none_iff' {sub buf : Bytes} {b : Nat} (hm : 0 < sub.length) :
    find sub buf b = none ↔ ∀ j, b ≤ j → sub.isPrefixOf (buf.drop j) = false := by
  rw [find_eq_none_iff]
  constructor
  · intro h j h1
    cases hj : sub.isPrefixOf (buf.drop j) with
    | false => rfl
    | true =>
      have := occ_le hm hj
      rw [← hj]
      exact h j h1 (by omega)
  · intro h j h1 _
    exact h j h1

/-- skipping a stretch without occurrences does not change the result -/
theorem find_skip {sub buf : Bytes} {b b' : Nat} (hb : b ≤ b')
    (h : ∀ j, b ≤ j → j < b' → sub.isPrefixOf (buf.drop j) = false) :
    find sub buf b = find sub buf b' := by
  cases h' : find sub buf b' with
  | none =>
    rw [find_eq_none_iff] at h' ⊢
    intro j h1 h2
    by_cases hj : j < b'
    · exact h j h1 hj
    · exact h' j (by omega) h2
  | some i =>
    rw [find_eq_some_iff] at h' ⊢
    obtain ⟨h1, h2, h3, h4⟩ := h'
    refine ⟨h1, by omega, h3, ?_⟩
    intro j hj1 hj2
    by_cases hj : j < b'
    · exact h j hj1 hj
    · exact h4 j (by omega) hj2

/-- occurrences inside a read window -/
theorem occ_window {marker stream : Bytes} {p bs i : Nat} (hm : 0 < marker.length) :
    marker.isPrefixOf (((stream.drop p).take bs).drop i) = true ↔
      marker.isPrefixOf (stream.drop (p + i)) = true ∧ i + marker.length ≤ bs := by
  rw [List.drop_take, List.drop_drop, List.isPrefixOf_iff_prefix, List.isPrefixOf_iff_prefix,
    List.prefix_take_iff]
  constructor
  · rintro ⟨h1, h2⟩
    exact ⟨h1, by omega⟩
  · rintro ⟨h1, h2⟩
    exact ⟨h1, by omega⟩


/-- an occurrence found in a read window is the next occurrence in the stream -/
theorem window_find_some {marker stream : Bytes} {p bs b e : Nat} (hm : 0 < marker.length)
    (h : find marker ((stream.drop p).take bs) b = some e) :
    find marker stream (p + b) = some (p + e) ∧ e + marker.length ≤ bs := by
  rw [find_eq_some_iff' hm] at h
  obtain ⟨h1, h2, h3⟩ := h
  rw [occ_window hm] at h1
  refine ⟨?_, h1.2⟩
  rw [find_eq_some_iff' hm]
  refine ⟨h1.1, by omega, ?_⟩
  intro j hj1 hj2
  have := h3 (j - p) (by omega) (by omega)
  cases hj : marker.isPrefixOf (stream.drop j) with
  | false => rfl
  | true =>
    rw [← this, eq_comm, occ_window hm]
    have : p + (j - p) = j := by omega
    rw [this]
    exact ⟨hj, by omega⟩

/-- nothing found in a read window: every later occurrence sticks out of the window -/
theorem window_find_none {marker stream : Bytes} {p bs b : Nat} (hm : 0 < marker.length)
    (h : find marker ((stream.drop p).take bs) b = none) :
    ∀ q, p + b ≤ q → marker.isPrefixOf (stream.drop q) = true → p + bs < q + marker.length := by
  rw [find_eq_none_iff' hm] at h
  intro q hq1 hq2
  have := h (q - p) (by omega)
  have h3 : ¬ (marker.isPrefixOf (((stream.drop p).take bs).drop (q - p)) = true) := by
    rw [this]; simp
  rw [occ_window hm] at h3
  have : p + (q - p) = q := by omega
  rw [this] at h3
  have : ¬ (q - p + marker.length ≤ bs) := fun h => h3 ⟨hq2, h⟩
  omega

/-! ## one loop iteration, case by case -/


section steps
variable (stream marker : Bytes) (bs p : Nat)

local notation "buf" => List.take bs (List.drop p stream)

theorem step1_none_short (h : find marker buf 0 = none) (hs : (buf).length < bs) :
    scanStep false stream marker bs ⟨none, none, none, p⟩ = .stop (p + (buf).length) := by
  simp only [scanStep, h, hs, if_true]

theorem step1_none_full (h : find marker buf 0 = none) (hs : ¬ (buf).length < bs) :
    scanStep false stream marker bs ⟨none, none, none, p⟩ =
      .continue ⟨none, none, none, p + (buf).length - marker.length⟩ := by
  simp only [scanStep, h, hs, if_true, if_false]

theorem step1_some_some {s e : Nat} (h : find marker buf 0 = some s)
    (h' : find marker buf (s + marker.length) = some e) (hlt : s < e) :
    scanStep false stream marker bs ⟨none, none, none, p⟩ =
      .found (p + s + marker.length) (p + e) := by
  have hmax : max (s + marker.length) (p + s + marker.length - p) = s + marker.length := by omega
  have hlt' : p + s < p + e := by omega
  simp only [scanStep]
  generalize buf = B at h h' ⊢
  simp [h, hmax, h', hlt']

theorem step1_some_none_short {s : Nat} (h : find marker buf 0 = some s)
    (h' : find marker buf (s + marker.length) = none) (hs : (buf).length < bs)
    (hlt : s < (buf).length) :
    scanStep false stream marker bs ⟨none, none, none, p⟩ =
      .found (p + s + marker.length) (p + (buf).length) := by
  have hmax : max (s + marker.length) (p + s + marker.length - p) = s + marker.length := by omega
  simp only [scanStep]
  generalize buf = B at h h' hs hlt ⊢
  simp [h, hmax, h', hlt, hs]

theorem step1_some_none_full {s : Nat} (hm : 0 < marker.length) (h : find marker buf 0 = some s)
    (h' : find marker buf (s + marker.length) = none) (hs : ¬ (buf).length < bs) :
    scanStep false stream marker bs ⟨none, none, none, p⟩ =
      .continue ⟨some 0, some (p + s), none, p + (buf).length - marker.length⟩ := by
  have hmax : max (s + marker.length) (p + s + marker.length - p) = s + marker.length := by omega
  simp only [scanStep]
  generalize buf = B at h h' hs ⊢
  simp [h, hmax, h', hs]
  split
  · rfl
  · rename_i h2; exact (h2 (s + marker.length - 1) (by congr 1; omega)).elim

theorem step2_some {sc e : Nat} (h : find marker buf (sc + marker.length - p) = some e)
    (hlt : sc < p + e) :
    scanStep false stream marker bs ⟨some 0, some sc, none, p⟩ =
      .found (sc + marker.length) (p + e) := by
  simp only [scanStep]
  generalize buf = B at h ⊢
  simp [h, hlt]

theorem step2_none_short {sc : Nat} (h : find marker buf (sc + marker.length - p) = none)
    (hs : (buf).length < bs) (hlt : sc < p + (buf).length) :
    scanStep false stream marker bs ⟨some 0, some sc, none, p⟩ =
      .found (sc + marker.length) (p + (buf).length) := by
  simp only [scanStep]
  generalize buf = B at h hs hlt ⊢
  simp [h, hlt, hs]

theorem step2_none_full {sc : Nat} (h : find marker buf (sc + marker.length - p) = none)
    (hs : ¬ (buf).length < bs) :
    scanStep false stream marker bs ⟨some 0, some sc, none, p⟩ =
      .continue ⟨some 0, some sc, none, p + (buf).length - marker.length⟩ := by
  simp only [scanStep]
  generalize buf = B at h hs ⊢
  simp [h, hs]
  
end steps

/-! ## the loop -/


theorem not_occ_of {marker stream : Bytes} {j : Nat} {P : Prop}
    (h : marker.isPrefixOf (stream.drop j) = true → P) (hP : ¬ P) :
    marker.isPrefixOf (stream.drop j) = false := by
  cases hj : marker.isPrefixOf (stream.drop j) with
  | false => rfl
  | true => exact absurd (h hj) hP

theorem loop2 (stream marker : Bytes) (bs : Nat) (hm : 0 < marker.length) (hbs : marker.length < bs) :
    ∀ fuel p sc, p ≤ stream.length → stream.length - p < fuel → sc ≤ p →
      sc + marker.length ≤ stream.length →
      (∀ q, sc + marker.length ≤ q → marker.isPrefixOf (stream.drop q) = true → p ≤ q) →
      scanLoop false stream marker bs fuel ⟨some 0, some sc, none, p⟩ =
        (some (sc + marker.length, (find marker stream (sc + marker.length)).getD stream.length),
          sc + marker.length) := by
  intro fuel
  induction fuel with
  | zero => intro p sc _ h; omega
  | succ fuel ih =>
    intro p sc hp hfuel hsc hscm hinv
    have hlen : (List.take bs (List.drop p stream)).length = min bs (stream.length - p) := by
      simp
    have hskip : find marker stream (sc + marker.length) =
        find marker stream (p + (sc + marker.length - p)) := by
      apply find_skip (by omega)
      intro j h1 h2
      exact not_occ_of (hinv j h1) (by omega)
    unfold scanLoop
    cases h : find marker (List.take bs (List.drop p stream)) (sc + marker.length - p) with
    | some e =>
      obtain ⟨w1, w2⟩ := window_find_some hm h
      have hle := ((find_eq_some_iff' hm).1 h).2.1
      rw [step2_some _ _ _ _ h (by omega)]
      simp only
      rw [hskip, w1]
      rfl
    | none =>
      have w := window_find_none hm h
      by_cases hs : (List.take bs (List.drop p stream)).length < bs
      · rw [step2_none_short _ _ _ _ h hs (by omega)]
        simp only
        have hnone : find marker stream (p + (sc + marker.length - p)) = none := by
          rw [find_eq_none_iff' hm]
          intro j hj
          apply not_occ_of (P := False) _ (fun h => h)
          intro hocc
          have := w j hj hocc
          have := occ_le hm hocc
          omega
        rw [hskip, hnone]
        have : p + (List.take bs (List.drop p stream)).length = stream.length := by omega
        rw [this]
        rfl
      · rw [step2_none_full _ _ _ _ h hs]
        simp only
        have hfull : (List.take bs (List.drop p stream)).length = bs := by omega
        rw [hfull]
        apply ih
        · omega
        · omega
        · omega
        · exact hscm
        · intro q hq hocc
          have := hinv q hq hocc
          have := w q (by omega) hocc
          omega




theorem loop1 (stream marker : Bytes) (bs : Nat) (hm : 0 < marker.length) (hbs : marker.length < bs) :
    ∀ fuel p, p ≤ stream.length → stream.length - p < fuel →
      scanLoop false stream marker bs fuel ⟨none, none, none, p⟩ =
        match specNext stream marker p with
        | some (a, b) => (some (a, b), a)
        | none => (none, stream.length) := by
  intro fuel
  induction fuel with
  | zero => intro p _ h; omega
  | succ fuel ih =>
    intro p hp hfuel
    have hlen : (List.take bs (List.drop p stream)).length = min bs (stream.length - p) := by
      simp
    unfold scanLoop
    cases h : find marker (List.take bs (List.drop p stream)) 0 with
    | none =>
      have w := window_find_none hm h
      by_cases hs : (List.take bs (List.drop p stream)).length < bs
      · rw [step1_none_short _ _ _ _ h hs]
        have hnone : find marker stream p = none := by
          rw [find_eq_none_iff' hm]
          intro j hj
          apply not_occ_of (P := False) _ (fun h => h)
          intro hocc
          have := w j hj hocc
          have := occ_le hm hocc
          omega
        simp only [specNext, hnone]
        have : p + (List.take bs (List.drop p stream)).length = stream.length := by omega
        rw [this]
      · rw [step1_none_full _ _ _ _ h hs]
        simp only
        have hfull : (List.take bs (List.drop p stream)).length = bs := by omega
        rw [hfull, ih _ (by omega) (by omega)]
        have hskip : find marker stream p = find marker stream (p + bs - marker.length) := by
          apply find_skip (by omega)
          intro j h1 h2
          exact not_occ_of (w j h1) (by omega)
        simp only [specNext, hskip]
    | some s =>
      obtain ⟨w1, w2⟩ := window_find_some hm h
      have hocc := occ_le hm ((find_eq_some_iff' hm).1 h).1
      have hspec : specNext stream marker p = some (p + s + marker.length,
          (find marker stream (p + (s + marker.length))).getD stream.length) := by
        simp only [specNext, Nat.add_zero] at w1 ⊢
        simp only [w1, Nat.add_assoc]
      rw [hspec]
      simp only
      cases h' : find marker (List.take bs (List.drop p stream)) (s + marker.length) with
      | some e =>
        obtain ⟨v1, v2⟩ := window_find_some hm h'
        have hle := ((find_eq_some_iff' hm).1 h').2.1
        rw [step1_some_some _ _ _ _ h h' (by omega), v1]
        rfl
      | none =>
        have w := window_find_none hm h'
        by_cases hs : (List.take bs (List.drop p stream)).length < bs
        · rw [step1_some_none_short _ _ _ _ h h' hs (by omega)]
          have hnone : find marker stream (p + (s + marker.length)) = none := by
            rw [find_eq_none_iff' hm]
            intro j hj
            apply not_occ_of (P := False) _ (fun h => h)
            intro hocc
            have := w j hj hocc
            have := occ_le hm hocc
            omega
          have : p + (List.take bs (List.drop p stream)).length = stream.length := by omega
          rw [hnone, this]
          rfl
        · rw [step1_some_none_full _ _ _ _ hm h h' hs]
          simp only
          have hfull : (List.take bs (List.drop p stream)).length = bs := by omega
          rw [hfull, loop2 stream marker bs hm hbs fuel _ (p + s) (by omega) (by omega) (by omega)
            (by omega)]
          · simp only [Nat.add_assoc]
          · intro q hq hocc
            have := w q (by omega) hocc
            omega




theorem getNextEntry_eq_spec (stream marker : Bytes) (blocksize pos : Nat) (hm : 0 < marker.length)
    (hpos : pos ≤ stream.length) :
    getNextEntry false stream marker blocksize pos =
      match specNext stream marker pos with
      | some (a, b) => (some (a, b), a)
      | none => (none, stream.length) := by
  unfold getNextEntry
  exact loop1 stream marker _ hm (by split <;> omega) _ pos hpos (by omega)

/-! ## repeated calls -/

theorem specNext_le {stream marker : Bytes} {pos a b : Nat} (hm : 0 < marker.length)
    (h : specNext stream marker pos = some (a, b)) : a ≤ stream.length := by
  unfold specNext at h
  split at h
  · simp at h
  · rename_i s hs
    have := occ_le hm ((find_eq_some_iff' hm).1 hs).1
    simp only [Option.some.injEq, Prod.mk.injEq] at h
    omega

theorem scanAll_eq_specAll (stream marker : Bytes) (blocksize : Nat) (hm : 0 < marker.length) :
    ∀ fuel pos, pos ≤ stream.length →
      scanAll false stream marker blocksize fuel pos = specAll stream marker fuel pos := by
  intro fuel
  induction fuel with
  | zero => intro pos _; rfl
  | succ fuel ih =>
    intro pos hpos
    unfold scanAll specAll
    rw [getNextEntry_eq_spec stream marker blocksize pos hm hpos]
    cases h : specNext stream marker pos with
    | none => rfl
    | some ab =>
      obtain ⟨a, b⟩ := ab
      simp only
      rw [ih a (specNext_le hm h)]

/-! ## generated streams -/

/-- the marker offsets of the intended entries -/
def starts (marker : Bytes) (off : Nat) (es : List Bytes) : List Nat :=
  (intended marker off es).map (fun ab => ab.1 - marker.length)

theorem starts_nil (marker : Bytes) (off : Nat) : starts marker off [] = [] := rfl

theorem starts_cons (marker : Bytes) (off : Nat) (e : Bytes) (es : List Bytes) :
    starts marker off (e :: es) = off :: starts marker (off + marker.length + e.length) es := by
  simp [starts, intended]

theorem le_of_mem_starts {marker : Bytes} {es : List Bytes} :
    ∀ {off i : Nat}, i ∈ starts marker off es → off ≤ i := by
  induction es with
  | nil => intro off i h; simp [starts_nil] at h
  | cons e es ih =>
    intro off i h
    rw [starts_cons, List.mem_cons] at h
    rcases h with h | h
    · omega
    · have := ih h
      omega

theorem build_cons (pre marker e : Bytes) (es : List Bytes) :
    build (pre ++ marker ++ e) marker es = build pre marker (e :: es) := by
  simp [build]

theorem specAll_succ (stream marker : Bytes) (fuel pos : Nat) :
    specAll stream marker (fuel + 1) pos =
      match specNext stream marker pos with
      | some (a, b) => (a, b) :: specAll stream marker fuel a
      | none => [] := rfl

theorem specAll_built (marker : Bytes) (hm : 0 < marker.length) (S : Bytes) :
    ∀ (es : List Bytes) (pre : Bytes) (p : Nat), build pre marker es = S → p ≤ pre.length →
      (∀ i, p ≤ i → marker.isPrefixOf (S.drop i) = true → i ∈ starts marker pre.length es) →
      (∀ i, i ∈ starts marker pre.length es → marker.isPrefixOf (S.drop i) = true) →
      specAll S marker (es.length + 1) p = intended marker pre.length es := by
  intro es
  induction es with
  | nil =>
    intro pre p _ _ h1 _
    have hnone : find marker S p = none := by
      rw [find_eq_none_iff' hm]
      intro j hj
      apply not_occ_of (P := False) _ (fun h => h)
      intro hocc
      have := h1 j hj hocc
      simp [starts_nil] at this
    simp [specAll, specNext, hnone, intended]
  | cons e es ih =>
    intro pre p hS hp h1 h2
    rw [starts_cons] at h1 h2
    have hoff : marker.isPrefixOf (S.drop pre.length) = true := h2 _ (List.mem_cons_self ..)
    have hfind : find marker S p = some pre.length := by
      rw [find_eq_some_iff' hm]
      refine ⟨hoff, hp, ?_⟩
      intro j hj1 hj2
      refine not_occ_of (fun h => ?_) (Nat.not_le.2 hj2)
      have := h1 j hj1 h
      rw [← starts_cons] at this
      exact le_of_mem_starts this
    -- later occurrences belong to the remaining entries
    have h1' : ∀ i, pre.length + marker.length ≤ i → marker.isPrefixOf (S.drop i) = true →
        i ∈ starts marker (pre.length + marker.length + e.length) es := by
      intro i hi hocc
      have := h1 i (by omega) hocc
      rw [List.mem_cons] at this
      rcases this with h | h
      · omega
      · exact h
    have hskip : find marker S (pre.length + marker.length) =
        find marker S (pre.length + marker.length + e.length) := by
      apply find_skip (by omega)
      intro j hj1 hj2
      exact not_occ_of (fun h => le_of_mem_starts (h1' j hj1 h)) (by omega)
    have hb : (find marker S (pre.length + marker.length)).getD S.length =
        pre.length + marker.length + e.length := by
      rw [hskip]
      cases es with
      | nil =>
        have hnone : find marker S (pre.length + marker.length + e.length) = none := by
          rw [find_eq_none_iff' hm]
          intro j hj
          apply not_occ_of (P := False) _ (fun h => h)
          intro hocc
          have := h1' j (by omega) hocc
          simp [starts_nil] at this
        rw [hnone, ← hS]
        simp [build, Nat.add_assoc]
      | cons e' es' =>
        have hsome : find marker S (pre.length + marker.length + e.length) =
            some (pre.length + marker.length + e.length) := by
          rw [find_eq_some_iff' hm]
          refine ⟨h2 _ ?_, Nat.le_refl _, ?_⟩
          · rw [starts_cons]
            exact List.mem_cons_of_mem _ (List.mem_cons_self ..)
          · intro j hj1 hj2
            omega
        rw [hsome]
        rfl
    have hlen : (pre ++ marker ++ e).length = pre.length + marker.length + e.length := by
      simp only [List.length_append]
    have hih := ih (pre ++ marker ++ e) (pre.length + marker.length)
      (by rw [build_cons]; exact hS) (by omega)
      (by rw [hlen]; exact h1')
      (by rw [hlen]; intro i hi; exact h2 i (List.mem_cons_of_mem _ hi))
    rw [hlen] at hih
    have hsn : specNext S marker p = some (pre.length + marker.length,
        pre.length + marker.length + e.length) := by
      simp only [specNext, hfind, hb]
    show specAll S marker ((es.length + 1) + 1) p = _
    rw [specAll_succ, hsn]
    simp only
    rw [hih]
    rfl


theorem mem_occurrences {stream marker : Bytes} {i : Nat} (hm : 0 < marker.length) :
    i ∈ occurrences stream marker ↔ marker.isPrefixOf (stream.drop i) = true := by
  unfold occurrences
  rw [List.mem_filter, List.mem_range]
  constructor
  · exact fun h => h.2
  · intro h
    have := occ_le hm h
    exact ⟨by omega, h⟩

theorem specAll_intended (pre marker : Bytes) (entries : List Bytes) (hm : 0 < marker.length)
    (h : NoAccidental pre marker entries) :
    specAll (build pre marker entries) marker (entries.length + 1) 0 =
      intended marker pre.length entries := by
  have h' : occurrences (build pre marker entries) marker = starts marker pre.length entries := h
  apply specAll_built marker hm _ entries pre 0 rfl (Nat.zero_le _)
  · intro i _ hocc
    rw [← h', mem_occurrences hm]
    exact hocc
  · intro i hi
    rw [← h', mem_occurrences hm] at hi
    exact hi

/-- content mode on a generated stream -/
theorem content_built (marker : Bytes) (entries : List Bytes) : ∀ pre : Bytes,
    (intended marker pre.length entries).map
        (fun ab => ((build pre marker entries).drop ab.1).take (ab.2 - ab.1)) = entries := by
  induction entries with
  | nil => intro pre; rfl
  | cons e es ih =>
    intro pre
    have h2 := ih (pre ++ marker ++ e)
    rw [build_cons] at h2
    simp only [List.length_append] at h2
    simp only [intended, List.map_cons]
    rw [h2]
    congr 1
    simp [build]

end Pff.Scan
