import Pff.Props.Chain
import Pff.Props.C15
/-!
Helper lemmas for `Pff/Props/Chain2.lean`, part 2: the index companion.  An index file of the
pristine length, whose 27-byte blocks are each within 9 wrong bytes of the pristine block,
decodes block by block (facade over the byte field, decoder under contract W) to the pristine
marker infos: the premise `hrecs` of `C15_recover`.
-/
namespace Pff.ChainProofs

open Pff.GF Pff.Facade Pff.Ecc Pff.Layout Pff.RSSpec Pff.Entry Pff.Bridge Pff.BridgeProofs

/-! ### lists of blocks of equal length -/

theorem flatten_length_const {α : Type} (n : Nat) (L : List (List α)) (h : ∀ x ∈ L, x.length = n) :
    L.flatten.length = n * L.length := by
  induction L with
  | nil => simp
  | cons x xs ih =>
    rw [List.flatten_cons, List.length_append, ih (fun y hy => h y (List.mem_cons_of_mem _ hy)),
      h x List.mem_cons_self, List.length_cons, Nat.mul_succ, Nat.add_comm]

theorem flatten_block {α : Type} (n : Nat) (L : List (List α)) (h : ∀ x ∈ L, x.length = n) :
    ∀ (i : Nat) (hi : i < L.length), (L.flatten.drop (n * i)).take n = L[i] := by
  induction L with
  | nil => intro i hi; simp at hi
  | cons x xs ih =>
    intro i hi
    have hx := h x List.mem_cons_self
    cases i with
    | zero =>
      simp only [Nat.mul_zero, List.drop_zero, List.flatten_cons, List.getElem_cons_zero]
      exact List.take_left' hx
    | succ i =>
      have e : n * (i + 1) = n + n * i := by rw [Nat.mul_succ, Nat.add_comm]
      rw [List.flatten_cons, e, ← List.drop_drop, List.drop_left' hx, List.getElem_cons_succ]
      exact ih (fun y hy => h y (List.mem_cons_of_mem _ hy)) i (by simpa using hi)

theorem chunks_nil (n fuel : Nat) : chunks n fuel [] = [] := by
  cases fuel with
  | zero => rfl
  | succ f => simp [chunks]

theorem chunks_map {β : Type} (n : Nat) (hn : 0 < n) (f : List Nat → β) :
    ∀ (gs : List β) (l : List Nat) (fuel : Nat), l.length = n * gs.length → gs.length ≤ fuel →
      (∀ i (h : i < gs.length), f ((l.drop (n * i)).take n) = gs[i]) →
      (chunks n fuel l).map f = gs := by
  intro gs
  induction gs with
  | nil =>
    intro l fuel hl _ _
    have : l = [] := List.length_eq_zero_iff.mp (by simpa using hl)
    rw [this, chunks_nil]; rfl
  | cons g gs ih =>
    intro l fuel hl hf hall
    rw [List.length_cons] at hl hf
    obtain ⟨fuel, rfl⟩ : ∃ f', fuel = f' + 1 := ⟨fuel - 1, by omega⟩
    have hpos : 0 < l.length := by
      rw [hl]; exact Nat.mul_pos hn (Nat.succ_pos _)
    have hne : l.isEmpty = false := by
      cases l with
      | nil => simp at hpos
      | cons _ _ => rfl
    have hn0 : ¬ n = 0 := by omega
    simp only [chunks, hne, hn0, decide_false, Bool.or_self, Bool.false_eq_true, if_false,
      List.map_cons]
    have h0 := hall 0 (Nat.succ_pos _)
    simp only [Nat.mul_zero, List.drop_zero, List.getElem_cons_zero] at h0
    rw [h0]
    congr 1
    apply ih (l.drop n) fuel
    · rw [List.length_drop, hl, Nat.mul_succ]; omega
    · omega
    · intro i hi
      have := hall (i + 1) (by simpa using hi)
      rw [List.getElem_cons_succ] at this
      rw [List.drop_drop, ← this]
      congr 2
      rw [Nat.mul_succ, Nat.add_comm]

/-! ### the marker infos are bytes -/

theorem recBytes_length (k pos : Nat) : (recBytes k pos).length = 9 := by
  simp [recBytes]

theorem recBytes_bytes (k pos : Nat) (hk : k ≤ 2) : IsBytes (recBytes k pos) := by
  intro x hx
  unfold recBytes at hx
  rcases List.mem_cons.mp hx with rfl | hx
  · omega
  · obtain ⟨i, _, rfl⟩ := List.mem_map.mp hx
    exact Nat.mod_lt _ (by decide)

/-! ### one index block through the facade -/
section Block
variable {p : Pff.GF.Params} (c : Codec (Elt p)) (core : Core (Elt p))

theorem decodeRecord_block (hF : CodecFacts c) (hD : DecFacts c core) (H : List Nat → List Nat)
    (hn : c.n = 27) (m0 B : List Nat) (hm0 : m0.length = 9) (hb0 : IsBytes m0)
    (hBl : B.length = 27) (hB : IsBytes B)
    (hcap : 2 * hdist B (m0 ++ (opsOfFacade c core H false 0 false).enc 9 m0) ≤ 18) :
    decodeRecord (opsOfFacade c core H false 0 false) 9 B = some m0 := by
  obtain ⟨h1, h2, h3⟩ := facade_errors c core hF hD H 9 m0 (B.take 9) (B.drop 9) hb0
    (fun x hx => hB x (List.mem_of_mem_take hx)) (fun x hx => hB x (List.mem_of_mem_drop hx))
    (by omega) (by omega) (by rw [List.length_take, hBl, hm0]; rfl) (by omega)
    (by rw [List.length_drop, hBl, hn])
    (by rw [List.take_append_drop, hn]; exact hcap)
  have hne : m0.isEmpty = false := by
    cases m0 with
    | nil => simp at hm0
    | cons _ _ => rfl
  generalize opsOfFacade c core H false 0 false = O at h1 h2 h3 ⊢
  simp only [decodeRecord]
  cases hc : O.chk 9 (B.take 9) (B.drop 9) with
  | true =>
    rw [if_pos rfl]
    simp only [h3 hc, hne, hm0, ne_eq, not_true_eq_false, decide_false, Bool.or_self,
      Bool.false_eq_true, if_false]
  | false =>
    rw [if_neg (by simp), h1]
    simp only [h2, if_true, hne, hm0, ne_eq, not_true_eq_false, decide_false, Bool.or_self,
      Bool.false_eq_true, if_false]

/-- the premise `hrecs` of `C15_recover` from "every block within capacity" -/
theorem idx_recs (hF : CodecFacts c) (hD : DecFacts c core) (H : List Nat → List Nat)
    (hn : c.n = 27) (recs : List (Nat × Nat)) (hkind : ∀ ko ∈ recs, ko.1 ≤ 2) (idx' : List Nat)
    (hlen : idx'.length = (genIdxFile (opsOfFacade c core H false 0 false).enc recs).length)
    (hbytes : IsBytes idx')
    (hblocks : ∀ i, i < recs.length →
      2 * hdist ((idx'.drop (27 * i)).take 27)
        (((genIdxFile (opsOfFacade c core H false 0 false).enc recs).drop (27 * i)).take 27) ≤ 18) :
    (chunks 27 idx'.length idx').map (decodeRecord (opsOfFacade c core H false 0 false) 9) =
      recs.map (fun ko => some (recBytes ko.1 ko.2)) := by
  have hL : ∀ x ∈ recs.map (fun ko => recBytes ko.1 ko.2 ++
      (opsOfFacade c core H false 0 false).enc 9 (recBytes ko.1 ko.2)), x.length = 27 := by
    intro x hx
    obtain ⟨ko, _, rfl⟩ := List.mem_map.mp hx
    have := (clean_ops c core hF H false 0 false 9 (recBytes ko.1 ko.2)
      (by rw [recBytes_length]; omega) (by rw [recBytes_length]) (by omega)).1
    rw [List.length_append, this, recBytes_length, hn]
  have hlen' : idx'.length = 27 * recs.length := by
    rw [hlen]
    unfold genIdxFile
    rw [flatten_length_const 27 _ hL, List.length_map]
  apply chunks_map 27 (by omega) _ _ idx' idx'.length
  · rw [List.length_map]; exact hlen'
  · rw [List.length_map, hlen']; omega
  · intro i hi
    rw [List.length_map] at hi
    rw [List.getElem_map]
    have hcap := hblocks i hi
    unfold genIdxFile at hcap
    rw [flatten_block 27 _ hL i (by rw [List.length_map]; exact hi), List.getElem_map] at hcap
    refine decodeRecord_block c core hF hD H hn _ _ (recBytes_length _ _)
      (recBytes_bytes _ _ (hkind _ (List.getElem_mem hi))) ?_
      (fun x hx => hbytes x (List.mem_of_mem_drop (List.mem_of_mem_take hx))) hcap
    rw [List.length_take, List.length_drop, hlen']
    have : 27 * (i + 1) ≤ 27 * recs.length := Nat.mul_le_mul_left 27 hi
    omega

theorem idx_chain (hF : CodecFacts c) (hD : DecFacts c core) (H : List Nat → List Nat)
    (hn : c.n = 27) (pre : List Nat) (es : List EntryParts) (idx' file' : List Nat)
    (hsmall : (genEcc pre es).length < 256 ^ 8)
    (hagree : AgreeOutside (genIdx pre.length es) (genEcc pre es) file')
    (hlen : idx'.length =
      (genIdxFile (opsOfFacade c core H false 0 false).enc (genIdx pre.length es)).length)
    (hbytes : IsBytes idx')
    (hblocks : ∀ i, i < (genIdx pre.length es).length →
      2 * hdist ((idx'.drop (27 * i)).take 27)
        (((genIdxFile (opsOfFacade c core H false 0 false).enc (genIdx pre.length es)).drop (27 * i)).take 27)
        ≤ 18) :
    recoverIdx (opsOfFacade c core H false 0 false) 27 9 idx' file' = some (genEcc pre es) := by
  apply C15_recover _ 27 9 pre es idx' file' rfl (by omega) hsmall hagree
  apply idx_recs c core hF hD H hn _ _ idx' hlen hbytes hblocks
  intro ko hko
  obtain ⟨m, hm, _⟩ := (C15_offsets pre es).2 ko hko
  rcases Pff.Entry.B.markerOfKind_some hm with ⟨h, _⟩ | ⟨h, _⟩ <;> omega

end Block

end Pff.ChainProofs
