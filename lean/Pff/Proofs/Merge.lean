import Pff.Model.Merge
import Pff.Props.C06
/-! Helper lemmas for C07 (replica alignment). -/
namespace Pff.Merge

/-! ## strings -/

theorem str_tri (a b : String) : a < b ∨ a = b ∨ b < a := by
  by_cases h1 : a < b
  · exact .inl h1
  · by_cases h2 : b < a
    · exact .inr (.inr h2)
    · exact .inr (.inl (String.le_antisymm (String.not_lt.1 h2) (String.not_lt.1 h1)))

/-! ## key components -/

/-- the strict order on key components computed by `cmpComp` -/
def CompLt (a b : Nat × String) : Prop := a.1 < b.1 ∨ (a.1 = b.1 ∧ a.2 < b.2)

theorem CompLt.irrefl (a : Nat × String) : ¬ CompLt a a := by
  intro h
  rcases h with h | ⟨_, h⟩
  · omega
  · exact String.lt_irrefl _ h

theorem CompLt.trans {a b c : Nat × String} (h1 : CompLt a b) (h2 : CompLt b c) : CompLt a c := by
  rcases h1 with h1 | ⟨e1, h1⟩ <;> rcases h2 with h2 | ⟨e2, h2⟩
  · exact .inl (by omega)
  · exact .inl (by omega)
  · exact .inl (by omega)
  · exact .inr ⟨by omega, String.lt_trans h1 h2⟩

theorem CompLt.tri (a b : Nat × String) : CompLt a b ∨ a = b ∨ CompLt b a := by
  obtain ⟨a1, a2⟩ := a
  obtain ⟨b1, b2⟩ := b
  simp only [CompLt, Prod.mk.injEq]
  rcases Nat.lt_trichotomy a1 b1 with h | h | h
  · exact .inl (.inl h)
  · rcases str_tri a2 b2 with h' | h' | h'
    · exact .inl (.inr ⟨h, h'⟩)
    · exact .inr (.inl ⟨h, h'⟩)
    · exact .inr (.inr (.inr ⟨h.symm, h'⟩))
  · exact .inr (.inr (.inl h))

theorem cmpComp_lt_iff (a b : Nat × String) : cmpComp a b = .lt ↔ CompLt a b := by
  unfold cmpComp CompLt
  by_cases h1 : a.1 < b.1
  · simp [h1]
  · by_cases h2 : b.1 < a.1
    · simp only [if_neg h1, if_pos h2]
      constructor
      · intro h; cases h
      · rintro (h | ⟨h, _⟩) <;> omega
    · have e : a.1 = b.1 := by omega
      by_cases h3 : a.2 < b.2
      · simp [h3, e]
      · by_cases h4 : b.2 < a.2 <;> simp [h3, h4, e]

theorem cmpComp_gt_iff (a b : Nat × String) : cmpComp a b = .gt ↔ CompLt b a := by
  unfold cmpComp CompLt
  by_cases h1 : a.1 < b.1
  · simp only [if_pos h1]
    constructor
    · intro h; cases h
    · rintro (h | ⟨h, _⟩) <;> omega
  · by_cases h2 : b.1 < a.1
    · simp [h1, h2]
    · have e : a.1 = b.1 := by omega
      by_cases h3 : a.2 < b.2
      · have h4 : ¬ b.2 < a.2 := String.lt_asymm h3
        simp [h3, h4, e]
      · by_cases h4 : b.2 < a.2 <;> simp [h3, h4, e]

theorem cmpComp_eq_iff (a b : Nat × String) : cmpComp a b = .eq ↔ a = b := by
  constructor
  · intro h
    rcases CompLt.tri a b with h' | h' | h'
    · rw [(cmpComp_lt_iff a b).2 h'] at h; cases h
    · exact h'
    · rw [(cmpComp_gt_iff a b).2 h'] at h; cases h
  · rintro rfl
    cases h : cmpComp a a with
    | lt => exact absurd ((cmpComp_lt_iff a a).1 h) (CompLt.irrefl a)
    | gt => exact absurd ((cmpComp_gt_iff a a).1 h) (CompLt.irrefl a)
    | eq => rfl

/-! ## keys -/

theorem cmpKey_cons_lt (a b : Nat × String) (as bs : List (Nat × String)) :
    cmpKey (a :: as) (b :: bs) = .lt ↔ CompLt a b ∨ (a = b ∧ cmpKey as bs = .lt) := by
  rw [cmpKey]
  cases h : cmpComp a b with
  | lt =>
    simp only [true_iff]
    exact .inl ((cmpComp_lt_iff a b).1 h)
  | gt =>
    have hgt := (cmpComp_gt_iff a b).1 h
    simp only [reduceCtorEq, false_iff]
    rintro (h' | ⟨rfl, _⟩)
    · exact CompLt.irrefl _ (hgt.trans h')
    · exact CompLt.irrefl _ hgt
  | eq =>
    have e := (cmpComp_eq_iff a b).1 h
    subst e
    simp only [true_and]
    constructor
    · intro h'; exact .inr h'
    · rintro (h' | h')
      · exact absurd h' (CompLt.irrefl _)
      · exact h'

theorem cmpKey_irrefl : ∀ a : List (Nat × String), cmpKey a a ≠ .lt
  | [] => by simp [cmpKey]
  | a :: as => by
    rw [Ne, cmpKey_cons_lt]
    rintro (h | ⟨_, h⟩)
    · exact CompLt.irrefl _ h
    · exact cmpKey_irrefl as h

theorem cmpKey_trans : ∀ a b c : List (Nat × String),
    cmpKey a b = .lt → cmpKey b c = .lt → cmpKey a c = .lt
  | [], [], _, h, _ => by simp [cmpKey] at h
  | [], _ :: _, [], _, h => by simp [cmpKey] at h
  | [], _ :: _, _ :: _, _, _ => by simp [cmpKey]
  | _ :: _, [], _, h, _ => by simp [cmpKey] at h
  | _ :: _, _ :: _, [], _, h => by simp [cmpKey] at h
  | a :: as, b :: bs, c :: cs, h1, h2 => by
    rw [cmpKey_cons_lt] at h1 h2 ⊢
    rcases h1 with h1 | ⟨rfl, h1⟩ <;> rcases h2 with h2 | ⟨rfl, h2⟩
    · exact .inl (h1.trans h2)
    · exact .inl h1
    · exact .inl h2
    · exact .inr ⟨rfl, cmpKey_trans as bs cs h1 h2⟩

theorem cmpKey_tri : ∀ a b : List (Nat × String),
    cmpKey a b = .lt ∨ a = b ∨ cmpKey b a = .lt
  | [], [] => .inr (.inl rfl)
  | [], _ :: _ => .inl (by simp [cmpKey])
  | _ :: _, [] => .inr (.inr (by simp [cmpKey]))
  | a :: as, b :: bs => by
    rw [cmpKey_cons_lt, cmpKey_cons_lt]
    rcases CompLt.tri a b with h | rfl | h
    · exact .inl (.inl h)
    · rcases cmpKey_tri as bs with h' | rfl | h'
      · exact .inl (.inr ⟨rfl, h'⟩)
      · exact .inr (.inl rfl)
      · exact .inr (.inr (.inr ⟨rfl, h'⟩))
    · exact .inr (.inr (.inl h))

/-! ## the key of a path -/

theorem key_single (f : String) : key [f] = [(0, f)] := by simp [key]

theorem key_cons (d : String) (q : Path) (hq : q ≠ []) : key (d :: q) = (1, d) :: key q := by
  cases q with
  | nil => exact absurd rfl hq
  | cons e r => simp [key]

theorem key_inj : ∀ (p q : Path), p ≠ [] → q ≠ [] → key p = key q → p = q
  | [], _, h, _, _ => absurd rfl h
  | _ :: _, [], _, h, _ => absurd rfl h
  | [f], [g], _, _, h => by simpa [key] using h
  | [f], d :: e :: r, _, _, h => by simp [key] at h
  | d :: e :: r, [g], _, _, h => by simp [key] at h
  | d :: e :: r, d' :: e' :: r', _, _, h => by
    rw [key_cons d _ (by simp), key_cons d' _ (by simp)] at h
    simp only [List.cons.injEq, Prod.mk.injEq, true_and] at h
    have := key_inj (e :: r) (e' :: r') (by simp) (by simp) h.2
    rw [h.1, this]

/-! ## `pathLt` is a strict total order on non-empty paths -/

theorem pathLt_iff (p q : Path) : pathLt p q = true ↔ cmpKey (key p) (key q) = .lt := by
  simp [pathLt]

theorem pathLt_irrefl (p : Path) : pathLt p p = false := by
  rw [← Bool.not_eq_true, pathLt_iff]
  exact cmpKey_irrefl _

theorem pathLt_trans {p q r : Path} (h1 : pathLt p q = true) (h2 : pathLt q r = true) :
    pathLt p r = true := by
  rw [pathLt_iff] at *
  exact cmpKey_trans _ _ _ h1 h2

theorem pathLt_asymm {p q : Path} (h : pathLt p q = true) : pathLt q p = false := by
  rw [← Bool.not_eq_true]
  intro h'
  have := pathLt_trans h h'
  rw [pathLt_irrefl] at this
  cases this

theorem pathLt_tri (p q : Path) (hp : p ≠ []) (hq : q ≠ []) :
    pathLt p q = true ∨ p = q ∨ pathLt q p = true := by
  rw [pathLt_iff, pathLt_iff]
  rcases cmpKey_tri (key p) (key q) with h | h | h
  · exact .inl h
  · exact .inr (.inl (key_inj p q hp hq h))
  · exact .inr (.inr h)

/-- negative transitivity (holds for all paths, as it holds on keys) -/
theorem pathLt_negtrans {p q r : Path} (h1 : pathLt p q = false) (h2 : pathLt q r = false) :
    pathLt p r = false := by
  rw [← Bool.not_eq_true, pathLt_iff] at *
  intro h
  rcases cmpKey_tri (key p) (key q) with h' | h' | h'
  · exact h1 h'
  · rw [h'] at h; exact h2 h
  · exact h2 (cmpKey_trans _ _ _ h' h)

theorem pathLt_ne {p q : Path} (h : pathLt p q = true) : p ≠ q := by
  rintro rfl
  rw [pathLt_irrefl] at h
  cases h

/-! ## `pathLt` on the shapes produced by `walk` -/

theorem pathLt_file_file (f g : String) : pathLt [f] [g] = true ↔ f < g := by
  rw [pathLt_iff, key_single, key_single, cmpKey_cons_lt]
  simp [CompLt, cmpKey]

theorem pathLt_file_dir (f d : String) (q : Path) (hq : q ≠ []) : pathLt [f] (d :: q) = true := by
  rw [pathLt_iff, key_single, key_cons d q hq, cmpKey_cons_lt]
  exact .inl (.inl (Nat.zero_lt_one))

theorem pathLt_dir_dir {d d' : String} (q q' : Path) (hq : q ≠ []) (hq' : q' ≠ []) (h : d < d') :
    pathLt (d :: q) (d' :: q') = true := by
  rw [pathLt_iff, key_cons d q hq, key_cons d' q' hq', cmpKey_cons_lt]
  exact .inl (.inr ⟨rfl, h⟩)

theorem pathLt_dir_same (d : String) (q q' : Path) (hq : q ≠ []) (hq' : q' ≠ [])
    (h : pathLt q q' = true) : pathLt (d :: q) (d :: q') = true := by
  rw [pathLt_iff] at *
  rw [key_cons d q hq, key_cons d q' hq', cmpKey_cons_lt]
  exact .inr ⟨rfl, h⟩

/-! ## the walk is strictly increasing -/

/-- local name of the strict alignment order (`Before` of `Props/C07.lean`) -/
abbrev Lt (p q : Path) : Prop := pathLt p q = true

mutual
theorem walk_spec : (t : Tree) → Sorted t →
    ((walk t).map (·.1)).Pairwise Lt ∧ ∀ pc ∈ walk t, pc.1 ≠ []
  | .node files dirs, h => by
    rw [Sorted] at h
    obtain ⟨hf, hd, hsd⟩ := h
    obtain ⟨ih1, ih2⟩ := walkDirs_spec dirs hd hsd
    rw [walk]
    constructor
    · rw [List.map_append, List.pairwise_append]
      refine ⟨?_, ih1, ?_⟩
      · rw [List.map_map, List.pairwise_map]
        rw [List.pairwise_map] at hf
        exact hf.imp (fun {a b} hab => (pathLt_file_file a.1 b.1).2 hab)
      · intro a ha b hb
        simp only [List.map_map, List.mem_map, Function.comp] at ha hb
        obtain ⟨fc, _, rfl⟩ := ha
        obtain ⟨pc, hpc, rfl⟩ := hb
        obtain ⟨d, q, e, hq, _⟩ := ih2 pc hpc
        rw [e]
        exact pathLt_file_dir _ _ _ hq
    · intro pc hpc
      rw [List.mem_append] at hpc
      rcases hpc with hpc | hpc
      · simp only [List.mem_map] at hpc
        obtain ⟨fc, _, rfl⟩ := hpc
        simp
      · obtain ⟨d, q, e, _, _⟩ := ih2 pc hpc
        rw [e]; simp
theorem walkDirs_spec : (dirs : List (String × Tree)) →
    (dirs.map (·.1)).Pairwise (· < ·) → Sorted.SortedDirs dirs →
    ((walk.walkDirs dirs).map (·.1)).Pairwise Lt ∧
      ∀ pc ∈ walk.walkDirs dirs, ∃ d q, pc.1 = d :: q ∧ q ≠ [] ∧ d ∈ dirs.map (·.1)
  | [], _, _ => by simp [walk.walkDirs]
  | (d, t) :: rest, hd, hsd => by
    rw [Sorted.SortedDirs] at hsd
    rw [List.map_cons, List.pairwise_cons] at hd
    obtain ⟨ht1, ht2⟩ := walk_spec t hsd.1
    obtain ⟨ih1, ih2⟩ := walkDirs_spec rest hd.2 hsd.2
    rw [walk.walkDirs]
    constructor
    · rw [List.map_append, List.pairwise_append]
      refine ⟨?_, ih1, ?_⟩
      · rw [List.map_map, List.pairwise_map]
        rw [List.pairwise_map] at ht1
        exact ht1.imp_of_mem (fun {a b} ha hb hab =>
          pathLt_dir_same d a.1 b.1 (ht2 a ha) (ht2 b hb) hab)
      · intro a ha b hb
        simp only [List.map_map, List.mem_map, Function.comp] at ha hb
        obtain ⟨pa, hpa, rfl⟩ := ha
        obtain ⟨pb, hpb, rfl⟩ := hb
        obtain ⟨d', q, e, hq, hd'⟩ := ih2 pb hpb
        rw [e]
        exact pathLt_dir_dir _ _ (ht2 pa hpa) hq (hd.1 d' hd')
    · intro pc hpc
      rw [List.mem_append] at hpc
      rcases hpc with hpc | hpc
      · simp only [List.mem_map] at hpc
        obtain ⟨pa, hpa, rfl⟩ := hpc
        exact ⟨d, pa.1, rfl, ht2 pa hpa, by simp⟩
      · obtain ⟨d', q, e, hq, hd'⟩ := ih2 pc hpc
        exact ⟨d', q, e, hq, List.mem_cons_of_mem _ hd'⟩
end

/-! ## `minHead` -/

theorem minHead_none : ∀ hs : List (Option Path), minHead hs = none → ∀ h ∈ hs, h = none
  | [], _ => by simp
  | none :: rest, h => by
    rw [minHead] at h
    intro x hx
    rcases List.mem_cons.1 hx with rfl | hx
    · rfl
    · exact minHead_none rest h x hx
  | some a :: rest, h => by
    rw [minHead] at h
    cases hm : minHead rest with
    | none => rw [hm] at h; cases h
    | some b => rw [hm] at h; dsimp only at h; split at h <;> cases h

/-- `minHead` returns a head that no other head precedes -/
theorem minHead_some : ∀ (hs : List (Option Path)) (p : Path), minHead hs = some p →
    some p ∈ hs ∧ ∀ q, some q ∈ hs → pathLt q p = false
  | [], p, h => by simp [minHead] at h
  | none :: rest, p, h => by
    rw [minHead] at h
    obtain ⟨h1, h2⟩ := minHead_some rest p h
    refine ⟨List.mem_cons_of_mem _ h1, fun q hq => h2 q ?_⟩
    rcases List.mem_cons.1 hq with hq | hq
    · cases hq
    · exact hq
  | some a :: rest, p, h => by
    rw [minHead] at h
    cases hm : minHead rest with
    | none =>
      rw [hm] at h
      simp only [Option.some.injEq] at h
      subst h
      refine ⟨List.mem_cons_self .., fun q hq => ?_⟩
      rcases List.mem_cons.1 hq with hq | hq
      · cases hq; exact pathLt_irrefl _
      · have := minHead_none rest hm _ hq; cases this
    | some b =>
      rw [hm] at h
      obtain ⟨h1, h2⟩ := minHead_some rest b hm
      dsimp only at h
      by_cases hba : pathLt b a = true
      · rw [if_pos hba] at h
        simp only [Option.some.injEq] at h; subst h
        refine ⟨List.mem_cons_of_mem _ h1, fun q hq => ?_⟩
        rcases List.mem_cons.1 hq with hq | hq
        · cases hq; exact pathLt_asymm hba
        · exact h2 q hq
      · rw [if_neg hba] at h
        simp only [Option.some.injEq] at h; subst h
        refine ⟨List.mem_cons_self .., fun q hq => ?_⟩
        rcases List.mem_cons.1 hq with hq | hq
        · cases hq; exact pathLt_irrefl _
        · exact pathLt_negtrans (h2 q hq) (by simpa using hba)

/-- the heads examined by one round of the loop -/
def heads (cursors : List Cursor) : List (Option Path) :=
  cursors.map (fun c => c.head?.map (·.1))

theorem some_mem_heads {q : Path} {cursors : List Cursor} :
    some q ∈ heads cursors ↔ ∃ c ∈ cursors, ∃ b rest, c = (q, b) :: rest := by
  unfold heads
  rw [List.mem_map]
  constructor
  · rintro ⟨c, hc, h⟩
    cases c with
    | nil => simp at h
    | cons hd rest =>
      obtain ⟨q', b⟩ := hd
      simp only [List.head?_cons, Option.map_some, Option.some.injEq] at h
      subst h
      exact ⟨_, hc, b, rest, rfl⟩
  · rintro ⟨c, hc, b, rest, rfl⟩
    exact ⟨_, hc, by simp⟩

/-- the chosen head is a lower bound of every path still to be read -/
theorem min_le_all {cursors : List Cursor} {p : Path}
    (hs : ∀ c ∈ cursors, (c.map (·.1)).Pairwise Lt) (hne : ∀ c ∈ cursors, ∀ pc ∈ c, pc.1 ≠ [])
    (hm : minHead (heads cursors) = some p) :
    ∀ c ∈ cursors, ∀ pc ∈ c, pc.1 = p ∨ Lt p pc.1 := by
  obtain ⟨h1, h2⟩ := minHead_some _ _ hm
  obtain ⟨c0, hc0, b0, r0, e0⟩ := some_mem_heads.1 h1
  have hp : p ≠ [] := hne c0 hc0 (p, b0) (by rw [e0]; exact List.mem_cons_self ..)
  intro c hc pc hpc
  cases c with
  | nil => cases hpc
  | cons hd rest =>
    obtain ⟨q, b⟩ := hd
    have hq : q ≠ [] := hne _ hc (q, b) (List.mem_cons_self ..)
    have hqp : pathLt q p = false := h2 q (some_mem_heads.2 ⟨_, hc, b, rest, rfl⟩)
    have hpq : q = p ∨ Lt p q := by
      rcases pathLt_tri q p hq hp with h | h | h
      · rw [hqp] at h; cases h
      · exact .inl h
      · exact .inr h
    rcases List.mem_cons.1 hpc with rfl | hpc
    · exact hpq
    · have hsc := hs _ hc
      rw [List.map_cons, List.pairwise_cons] at hsc
      have hlt : Lt q pc.1 := hsc.1 pc.1 (List.mem_map_of_mem hpc)
      rcases hpq with rfl | hpq
      · exact .inr hlt
      · exact .inr (pathLt_trans hpq hlt)

/-! ## advancing one cursor -/

/-- one cursor advanced past `p` -/
def adv1 (p : Path) (c : Cursor) : Cursor :=
  match c with
  | (q, _) :: rest => if q = p then rest else c
  | [] => []

theorem advance_eq (p : Path) (cursors : List Cursor) :
    advance p cursors = cursors.map (adv1 p) := rfl

theorem adv1_cons_eq (p : Path) (b : Bytes) (rest : Cursor) : adv1 p ((p, b) :: rest) = rest := by
  simp [adv1]

theorem adv1_cons_ne {p q : Path} (b : Bytes) (rest : Cursor) (h : q ≠ p) :
    adv1 p ((q, b) :: rest) = (q, b) :: rest := by
  simp [adv1, h]

theorem adv1_sublist (p : Path) (c : Cursor) : (adv1 p c).Sublist c := by
  match c with
  | [] => exact List.Sublist.refl _
  | (q, b) :: rest =>
    by_cases h : q = p
    · subst h; rw [adv1_cons_eq]; exact List.sublist_cons_self _ _
    · rw [adv1_cons_ne _ _ h]; exact List.Sublist.refl _

/-- after advancing, everything left in the cursor is strictly after `p` -/
theorem lt_of_mem_adv1 {p : Path} {c : Cursor} (hs : (c.map (·.1)).Pairwise Lt)
    (hmin : ∀ pc ∈ c, pc.1 = p ∨ Lt p pc.1) : ∀ pc ∈ adv1 p c, Lt p pc.1 := by
  match c, hs, hmin with
  | [], _, _ => intro pc hpc; cases hpc
  | (q, b) :: rest, hs, hmin =>
    rw [List.map_cons, List.pairwise_cons] at hs
    by_cases h : q = p
    · subst h
      rw [adv1_cons_eq]
      intro pc hpc
      exact hs.1 pc.1 (List.mem_map_of_mem hpc)
    · rw [adv1_cons_ne _ _ h]
      have hpq : Lt p q := by
        rcases hmin (q, b) (List.mem_cons_self ..) with h' | h'
        · exact absurd h' h
        · exact h'
      intro pc hpc
      rcases List.mem_cons.1 hpc with rfl | hpc
      · exact hpq
      · exact pathLt_trans hpq (hs.1 pc.1 (List.mem_map_of_mem hpc))

theorem mem_adv1_of_ne {p : Path} {c : Cursor} {pc : Path × Bytes} (h : pc ∈ c) (hne : pc.1 ≠ p) :
    pc ∈ adv1 p c := by
  match c, h with
  | (q, b) :: rest, h =>
    by_cases hq : q = p
    · subst hq
      rw [adv1_cons_eq]
      rcases List.mem_cons.1 h with rfl | h
      · exact absurd rfl hne
      · exact h
    · rw [adv1_cons_ne _ _ hq]; exact h

theorem find?_adv1 {p q : Path} (c : Cursor) (h : q ≠ p) :
    (adv1 p c).find? (fun pc => pc.1 = q) = c.find? (fun pc => pc.1 = q) := by
  match c with
  | [] => rfl
  | (r, b) :: rest =>
    by_cases hr : r = p
    · subst hr
      rw [adv1_cons_eq, List.find?_cons_of_neg]
      simpa using fun e => h e.symm
    · rw [adv1_cons_ne _ _ hr]

theorem remaining_cons (c : Cursor) (cs : List Cursor) :
    remaining (c :: cs) = c.length + remaining cs := by
  simp [remaining]

theorem remaining_advance_le (p : Path) : ∀ cursors : List Cursor,
    remaining (cursors.map (adv1 p)) ≤ remaining cursors
  | [] => Nat.le_refl _
  | c :: cs => by
    rw [List.map_cons, remaining_cons, remaining_cons]
    have := remaining_advance_le p cs
    have := (adv1_sublist p c).length_le
    omega

theorem remaining_advance_lt (p : Path) : ∀ cursors : List Cursor,
    (∃ c ∈ cursors, ∃ b rest, c = (p, b) :: rest) →
    remaining (cursors.map (adv1 p)) < remaining cursors
  | [], h => by obtain ⟨c, hc, _⟩ := h; cases hc
  | c :: cs, h => by
    rw [List.map_cons, remaining_cons, remaining_cons]
    obtain ⟨c', hc', b, rest, e⟩ := h
    rcases List.mem_cons.1 hc' with rfl | hc'
    · have := remaining_advance_le p cs
      rw [e, adv1_cons_eq, List.length_cons]
      omega
    · have := remaining_advance_lt p cs ⟨c', hc', b, rest, e⟩
      have := (adv1_sublist p c).length_le
      omega

/-! ## one group -/

theorem groupOf_eq {cursors : List Cursor} {p : Path}
    (hs : ∀ c ∈ cursors, (c.map (·.1)).Pairwise Lt)
    (hmin : ∀ c ∈ cursors, ∀ pc ∈ c, pc.1 = p ∨ Lt p pc.1) :
    groupOf p cursors = cursors.zipIdx.filterMap
      (fun ci => (ci.1.find? (fun pc => pc.1 = p)).map (fun pc => (ci.2, pc.2))) := by
  unfold groupOf
  apply Pff.Vote.filterMap_congr'
  intro ci hci
  have hc := List.fst_mem_of_mem_zipIdx hci
  obtain ⟨c, i⟩ := ci
  dsimp only at hc ⊢
  cases c with
  | nil => simp
  | cons hd rest =>
    obtain ⟨q, b⟩ := hd
    by_cases h : q = p
    · subst h; simp
    · have hnone : ((q, b) :: rest).find? (fun pc => pc.1 = p) = none := by
        rw [List.find?_eq_none]
        intro pc hpc
        have := lt_of_mem_adv1 (hs _ hc) (hmin _ hc) pc (by rw [adv1_cons_ne _ _ h]; exact hpc)
        simpa using (pathLt_ne this).symm
      rw [hnone]; simp [h]

/-! ## the alignment loop -/

theorem align_succ_none (fuel : Nat) (cursors : List Cursor)
    (h : minHead (heads cursors) = none) : align (fuel + 1) cursors = [] := by
  unfold heads at h
  simp only [align, h]

theorem align_succ_some (fuel : Nat) (cursors : List Cursor) (p : Path)
    (h : minHead (heads cursors) = some p) :
    align (fuel + 1) cursors = (p, groupOf p cursors) :: align fuel (cursors.map (adv1 p)) := by
  unfold heads at h
  simp only [align, h, advance_eq]

theorem align_spec : ∀ (fuel : Nat) (cursors : List Cursor), remaining cursors < fuel →
    (∀ c ∈ cursors, (c.map (·.1)).Pairwise Lt) → (∀ c ∈ cursors, ∀ pc ∈ c, pc.1 ≠ []) →
    ((align fuel cursors).map (·.1)).Pairwise Lt ∧
    (∀ p, p ∈ (align fuel cursors).map (·.1) ↔ ∃ c ∈ cursors, p ∈ c.map (·.1)) ∧
    (∀ pg ∈ align fuel cursors, pg.2 = cursors.zipIdx.filterMap
        (fun ci => (ci.1.find? (fun pc => pc.1 = pg.1)).map (fun pc => (ci.2, pc.2))))
  | 0, _, h, _, _ => by omega
  | fuel + 1, cursors, hfuel, hs, hne => by
    cases hm : minHead (heads cursors) with
    | none =>
      rw [align_succ_none _ _ hm]
      have hall := minHead_none _ hm
      have hemp : ∀ c ∈ cursors, c = [] := by
        intro c hc
        have := hall _ (List.mem_map_of_mem (f := fun c : Cursor => c.head?.map (·.1)) hc)
        cases c with
        | nil => rfl
        | cons a l => simp at this
      refine ⟨by simp, ?_, by simp⟩
      intro p
      simp only [List.map_nil, List.not_mem_nil, false_iff]
      rintro ⟨c, hc, hp⟩
      rw [hemp c hc] at hp
      simp at hp
    | some p =>
      rw [align_succ_some _ _ _ hm]
      have hmin := min_le_all hs hne hm
      have hhead := some_mem_heads.1 (minHead_some _ _ hm).1
      have hrem := remaining_advance_lt p cursors hhead
      have hs' : ∀ c ∈ cursors.map (adv1 p), (c.map (·.1)).Pairwise Lt := by
        intro c' hc'
        obtain ⟨c, hc, rfl⟩ := List.mem_map.1 hc'
        exact (hs c hc).sublist ((adv1_sublist p c).map _)
      have hne' : ∀ c ∈ cursors.map (adv1 p), ∀ pc ∈ c, pc.1 ≠ [] := by
        intro c' hc' pc hpc
        obtain ⟨c, hc, rfl⟩ := List.mem_map.1 hc'
        exact hne c hc pc ((adv1_sublist p c).subset hpc)
      obtain ⟨ih1, ih2, ih3⟩ := align_spec fuel (cursors.map (adv1 p)) (by omega) hs' hne'
      -- every path emitted later is strictly after `p`
      have hgt : ∀ q ∈ (align fuel (cursors.map (adv1 p))).map (·.1), Lt p q := by
        intro q hq
        obtain ⟨c', hc', hq'⟩ := (ih2 q).1 hq
        obtain ⟨c, hc, rfl⟩ := List.mem_map.1 hc'
        obtain ⟨pc, hpc, rfl⟩ := List.mem_map.1 hq'
        exact lt_of_mem_adv1 (hs c hc) (hmin c hc) pc hpc
      refine ⟨?_, ?_, ?_⟩
      · rw [List.map_cons, List.pairwise_cons]
        exact ⟨hgt, ih1⟩
      · intro q
        rw [List.map_cons, List.mem_cons, ih2]
        constructor
        · rintro (rfl | ⟨c', hc', hq'⟩)
          · obtain ⟨c, hc, b, rest, e⟩ := hhead
            exact ⟨c, hc, by rw [e]; simp⟩
          · obtain ⟨c, hc, rfl⟩ := List.mem_map.1 hc'
            exact ⟨c, hc, ((adv1_sublist p c).map _).subset hq'⟩
        · rintro ⟨c, hc, hq⟩
          by_cases hqp : q = p
          · exact .inl hqp
          · obtain ⟨pc, hpc, rfl⟩ := List.mem_map.1 hq
            exact .inr ⟨adv1 p c, List.mem_map_of_mem hc,
              List.mem_map_of_mem (mem_adv1_of_ne hpc hqp)⟩
      · intro pg hpg
        rcases List.mem_cons.1 hpg with rfl | hpg
        · exact groupOf_eq hs hmin
        · rw [ih3 pg hpg, List.zipIdx_map, List.filterMap_map]
          have hne : pg.1 ≠ p := (pathLt_ne (hgt pg.1 (List.mem_map_of_mem hpg))).symm
          apply Pff.Vote.filterMap_congr'
          intro ci _
          simp only [Function.comp, Prod.map, id]
          rw [find?_adv1 _ hne]

/-! ## `dup` -/

theorem walks_inc (replicas : List Tree) (hs : ∀ t ∈ replicas, Sorted t) :
    (∀ c ∈ replicas.map walk, (c.map (·.1)).Pairwise Lt) ∧
    (∀ c ∈ replicas.map walk, ∀ pc ∈ c, pc.1 ≠ []) := by
  constructor
  · intro c hc
    obtain ⟨t, ht, rfl⟩ := List.mem_map.1 hc
    exact (walk_spec t (hs t ht)).1
  · intro c hc
    obtain ⟨t, ht, rfl⟩ := List.mem_map.1 hc
    exact (walk_spec t (hs t ht)).2

/-- the groups formed by `dup` -/
def dupGroups (replicas : List Tree) : List (Path × List (Nat × Bytes)) :=
  align (remaining (replicas.map walk) + 1) (replicas.map walk)

theorem dup_used (bs : Nat) (replicas : List Tree) :
    (dup bs replicas).used = (dupGroups replicas).map (fun pg => (pg.1, pg.2.map (·.1))) := rfl

theorem dup_files (bs : Nat) (replicas : List Tree) :
    (dup bs replicas).files =
      (dupGroups replicas).map (fun pg => (pg.1, (processGroup bs pg.2).1)) := by
  simp [dup, dupGroups, List.map_map, Function.comp]

theorem dup_used_fst (bs : Nat) (replicas : List Tree) :
    (dup bs replicas).used.map (·.1) = (dupGroups replicas).map (·.1) := by
  rw [dup_used, List.map_map]
  rfl

theorem dup_files_fst (bs : Nat) (replicas : List Tree) :
    (dup bs replicas).files.map (·.1) = (dupGroups replicas).map (·.1) := by
  rw [dup_files, List.map_map]
  rfl

theorem dupGroups_spec (replicas : List Tree) (hs : ∀ t ∈ replicas, Sorted t) :
    ((dupGroups replicas).map (·.1)).Pairwise Lt ∧
    (∀ p, p ∈ (dupGroups replicas).map (·.1) ↔ ∃ c ∈ replicas.map walk, p ∈ c.map (·.1)) ∧
    (∀ pg ∈ dupGroups replicas, pg.2 = (replicas.map walk).zipIdx.filterMap
        (fun ci => (ci.1.find? (fun pc => pc.1 = pg.1)).map (fun pc => (ci.2, pc.2)))) :=
  align_spec _ _ (Nat.lt_succ_self _) (walks_inc replicas hs).1 (walks_inc replicas hs).2

/-- replica indices of a group: exactly the replicas containing the path -/
theorem group_indices (cursors : List Cursor) (p : Path) :
    ((cursors.zipIdx).filterMap
        (fun ci => (ci.1.find? (fun pc => pc.1 = p)).map (fun pc => (ci.2, pc.2)))).map (·.1)
      = (cursors.zipIdx).filterMap (fun ci => if p ∈ ci.1.map (·.1) then some ci.2 else none) := by
  rw [List.map_filterMap]
  apply Pff.Vote.filterMap_congr'
  intro ci _
  cases h : ci.1.find? (fun pc => pc.1 = p) with
  | none =>
    have hnot : p ∉ ci.1.map (·.1) := by
      rw [List.find?_eq_none] at h
      intro hm
      obtain ⟨pc, hpc, e⟩ := List.mem_map.1 hm
      exact h pc hpc (by simpa using e)
    simp [hnot]
  | some x =>
    have hin : p ∈ ci.1.map (·.1) :=
      List.mem_map.2 ⟨x, List.mem_of_find?_eq_some h, by simpa using List.find?_some h⟩
    simp [hin]

/-- contents of a group: the copies of the path, in replica order -/
theorem group_contents (cursors : List Cursor) (p : Path) :
    ((cursors.zipIdx).filterMap
        (fun ci => (ci.1.find? (fun pc => pc.1 = p)).map (fun pc => (ci.2, pc.2)))).map (·.2)
      = cursors.filterMap (fun w => (w.find? (fun pc => pc.1 = p)).map (·.2)) := by
  rw [List.map_filterMap]
  conv => rhs; rw [← List.zipIdx_map_fst 0 cursors, List.filterMap_map]
  apply Pff.Vote.filterMap_congr'
  intro ci _
  simp only [Option.map_map, Function.comp]
  rfl

theorem processGroup_restores (bs : Nat) (hbs : 0 < bs) (g : List (Nat × Bytes)) (orig : Bytes)
    (h3 : 3 ≤ (g.map (·.2)).length)
    (hlen : orig.length = Pff.Vote.maxLen (g.map (·.2)))
    (hmaj : ∀ j (hj : j < orig.length),
        (Pff.Vote.column (g.map (·.2)) j).length <
          2 * (Pff.Vote.column (g.map (·.2)) j).count orig[j]) :
    (processGroup bs g).1 = orig := by
  unfold processGroup
  split
  · simp at h3
  · simp only [Pff.Vote.majorityVote]
    rw [if_neg (by omega)]
    exact (Pff.Vote.C06_majority_restores bs hbs _ orig hlen hmaj).1

end Pff.Merge
