import Pff.Model.Ecc
import Pff.Props.C10
/-! Helper lemmas for C03 / C01 (per-file logic on generated tracks). -/
namespace Pff.Ecc

end Pff.Ecc
