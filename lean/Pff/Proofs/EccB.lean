import Pff.Model.Ecc
import Pff.Props.C10
/-! Helper lemmas for C03 / C01 (per-file logic on generated tracks). -/
namespace Pff.Ecc.B
open Pff.Ecc

open Pff.Layout

/-! ## exit status -/

theorem exitStatus_of_filter_eq (rs : List FileResult)
    (h : rs.filter (·.corrupted) = rs.filter (·.complete)) : exitStatus rs = 0 := by
  simp only [exitStatus]
  rw [if_pos]
  right
  rw [h]

theorem exitStatus_of_none_corrupted (rs : List FileResult)
    (h : ∀ r ∈ rs, r.corrupted = false) : exitStatus rs = 0 := by
  have h0 : rs.filter (·.corrupted) = [] := by
    rw [List.filter_eq_nil_iff]
    intro r hr
    rw [h r hr]
    exact Bool.false_ne_true
  simp only [exitStatus]
  rw [if_pos]
  left
  rw [h0]
  rfl

theorem exitStatus_of_iff (rs : List FileResult)
    (h : ∀ r ∈ rs, r.corrupted = r.complete) : exitStatus rs = 0 := by
  apply exitStatus_of_filter_eq
  apply List.filter_congr
  intro r hr
  exact h r hr

/-! ## the repair loop when no block fails -/

/-- the loop of `runLoop` started from state `s` at block number `n` -/
def loopFrom (O : Ops) (fast : Bool) (mbs thr : Nat) (s : LoopSt) (n : Nat) (blocks : List AsmBlock) :
    LoopSt :=
  (blocks.zipIdx n).foldl (fun s bi => loopStep O fast mbs thr s bi.2 bi.1) s

theorem runLoop_eq_loopFrom (O : Ops) (fast : Bool) (mbs thr : Nat) (blocks : List AsmBlock) :
    runLoop O fast mbs thr blocks = loopFrom O fast mbs thr { written := [] } 0 blocks := rfl

theorem loopFrom_nil (O : Ops) (fast : Bool) (mbs thr : Nat) (s : LoopSt) (n : Nat) :
    loopFrom O fast mbs thr s n [] = s := rfl

theorem loopFrom_cons (O : Ops) (fast : Bool) (mbs thr : Nat) (s : LoopSt) (n : Nat) (b : AsmBlock)
    (bs : List AsmBlock) :
    loopFrom O fast mbs thr s n (b :: bs) = loopFrom O fast mbs thr (loopStep O fast mbs thr s n b) (n + 1) bs := by
  simp only [loopFrom, List.zipIdx_cons, List.foldl_cons]

/-- block `b` is either accepted as it is or repaired, and `f b` is what gets written -/
def StepOK (O : Ops) (fast : Bool) (mbs : Nat) (f : AsmBlock → Bytes) (b : AsmBlock) : Prop :=
  (needsRepair O fast b = false ∧ processBlock O fast mbs b = (f b, .intact)) ∨
  (needsRepair O fast b = true ∧ processBlock O fast mbs b = (f b, .repaired))

theorem loopStep_intact (O : Ops) (fast : Bool) (mbs thr : Nat) (s : LoopSt) (i : Nat) (b : AsmBlock)
    (w : Bytes) (hs : s.stopped = false) (h : processBlock O fast mbs b = (w, .intact)) :
    loopStep O fast mbs thr s i b = { s with written := s.written ++ [w], errConsec := false } := by
  simp only [loopStep, hs, h, Bool.false_eq_true, if_false]

theorem loopStep_repaired (O : Ops) (fast : Bool) (mbs thr : Nat) (s : LoopSt) (i : Nat) (b : AsmBlock)
    (w : Bytes) (hs : s.stopped = false) (h : processBlock O fast mbs b = (w, .repaired)) :
    loopStep O fast mbs thr s i b =
      { s with written := s.written ++ [w], anyRepair := true, repairedOne := true,
               errConsec := false } := by
  simp only [loopStep, hs, h, Bool.false_eq_true, if_false]

theorem loopFrom_ok (O : Ops) (fast : Bool) (mbs thr : Nat) (f : AsmBlock → Bytes) :
    ∀ (blocks : List AsmBlock) (s : LoopSt) (n : Nat),
      (∀ b ∈ blocks, StepOK O fast mbs f b) → s.stopped = false → s.partialFail = false →
      (loopFrom O fast mbs thr s n blocks).stopped = false ∧
      (loopFrom O fast mbs thr s n blocks).partialFail = false ∧
      (loopFrom O fast mbs thr s n blocks).written = s.written ++ blocks.map f ∧
      (loopFrom O fast mbs thr s n blocks).anyRepair = (s.anyRepair || blocks.any (needsRepair O fast)) ∧
      (loopFrom O fast mbs thr s n blocks).repairedOne = (s.repairedOne || blocks.any (needsRepair O fast)) := by
  intro blocks
  induction blocks with
  | nil =>
    intro s n _ hs hp
    simp only [loopFrom_nil, List.map_nil, List.append_nil, List.any_nil, Bool.or_false, hs, hp,
      and_self]
  | cons b bs ih =>
    intro s n hall hs hp
    have hb := hall b (List.mem_cons_self)
    have hbs : ∀ b' ∈ bs, StepOK O fast mbs f b' := fun b' hb' => hall b' (List.mem_cons_of_mem _ hb')
    rw [loopFrom_cons]
    rcases hb with ⟨hn, hpb⟩ | ⟨hn, hpb⟩
    · rw [loopStep_intact O fast mbs thr s n b _ hs hpb]
      have := ih { s with written := s.written ++ [f b], errConsec := false } (n + 1) hbs hs hp
      simp only [List.map_cons, List.any_cons, hn, Bool.false_or]
      simpa only [List.append_assoc, List.singleton_append] using this
    · rw [loopStep_repaired O fast mbs thr s n b _ hs hpb]
      have := ih { s with written := s.written ++ [f b], anyRepair := true, repairedOne := true,
                          errConsec := false } (n + 1) hbs hs hp
      simp only [List.map_cons, List.any_cons, hn, Bool.true_or, Bool.or_true]
      simpa only [List.append_assoc, List.singleton_append, Bool.true_or] using this

theorem runLoop_ok (O : Ops) (fast : Bool) (mbs thr : Nat) (f : AsmBlock → Bytes)
    (blocks : List AsmBlock) (hall : ∀ b ∈ blocks, StepOK O fast mbs f b) :
    (runLoop O fast mbs thr blocks).stopped = false ∧
    (runLoop O fast mbs thr blocks).partialFail = false ∧
    (runLoop O fast mbs thr blocks).written = blocks.map f ∧
    (runLoop O fast mbs thr blocks).anyRepair = blocks.any (needsRepair O fast) ∧
    (runLoop O fast mbs thr blocks).repairedOne = blocks.any (needsRepair O fast) := by
  have h := loopFrom_ok O fast mbs thr f blocks { written := [] } 0 hall rfl rfl
  rw [runLoop_eq_loopFrom]
  simpa only [List.nil_append, Bool.false_or] using h

/-! ## blocks that need no repair -/

theorem processBlock_of_clean (O : Ops) (fast : Bool) (mbs : Nat) (b : AsmBlock)
    (h : needsRepair O fast b = false) : processBlock O fast mbs b = (b.msg, .intact) := by
  simp only [processBlock, h, Bool.false_eq_true, if_false]

theorem stepOK_of_clean (O : Ops) (fast : Bool) (mbs : Nat) (b : AsmBlock)
    (h : needsRepair O fast b = false) : StepOK O fast mbs (·.msg) b :=
  Or.inl ⟨h, processBlock_of_clean O fast mbs b h⟩

theorem any_needsRepair_false (O : Ops) (fast : Bool) (blocks : List AsmBlock)
    (h : ∀ b ∈ blocks, needsRepair O fast b = false) : blocks.any (needsRepair O fast) = false := by
  rw [List.any_eq_false]
  intro b hb
  rw [h b hb]
  exact Bool.false_ne_true

/-- a block carrying the hash and the parity of its own message needs no repair -/
theorem needsRepair_own (O : Ops) (fast : Bool)
    (hacc : fast = false → ∀ k m, 1 ≤ m.length → m.length ≤ k → O.chk k m (O.enc k m) = true)
    (off k : Nat) (m : Bytes) (h1 : 1 ≤ m.length) (h2 : m.length ≤ k) :
    needsRepair O fast ⟨off, m, k, O.H m, O.enc k m⟩ = false := by
  cases fast with
  | true => simp only [needsRepair, ne_eq, not_true_eq_false, decide_false, Bool.not_true,
      Bool.false_and, Bool.or_self]
  | false =>
    simp only [needsRepair, ne_eq, not_true_eq_false, decide_false, Bool.not_false,
      Bool.true_and, Bool.false_or, hacc rfl k m h1 h2, Bool.not_true]

theorem correctWholeFile_clean (O : Ops) (fast : Bool) (thr : Nat) (kOf : Nat → Nat)
    (hashLen mbs : Nat) (content track : Bytes)
    (h : ∀ b ∈ assemble kOf hashLen mbs content track (content.length + 1) 0 0,
      needsRepair O fast b = false) :
    correctWholeFile O fast thr kOf hashLen mbs content track =
      { output := none, corrupted := false, complete := false, partialRep := false } := by
  simp only [correctWholeFile, any_needsRepair_false O fast _ h, Bool.false_eq_true, if_false]

theorem correctHeaderFile_clean (O : Ops) (fast : Bool) (thr k hashLen mbs readLen : Nat)
    (content track : Bytes)
    (h : ∀ b ∈ assembleHeader k hashLen mbs readLen content track (content.length + 1) 0 0,
      needsRepair O fast b = false) :
    correctHeaderFile O fast thr k hashLen mbs readLen content track =
      { output := none, corrupted := false, complete := false, partialRep := false } := by
  have hr := runLoop_ok O fast mbs thr (·.msg) _ (fun b hb => stepOK_of_clean O fast mbs b (h b hb))
  have ha := hr.2.2.2.1
  rw [any_needsRepair_false O fast _ h] at ha
  simp only [correctHeaderFile, ha, Bool.false_eq_true, if_false]

/-! ## generated tracks -/

theorem whole_gen_clean (O : Ops) (fast : Bool) (hashLen mbs : Nat) (kOf : Nat → Nat)
    (hk : ∀ x, 1 ≤ kOf x) (hpos : ∀ x, 1 ≤ hashLen + (mbs - kOf x))
    (hH : ∀ m, (O.H m).length = hashLen)
    (henc : ∀ k m, 1 ≤ m.length → m.length ≤ k → (O.enc k m).length = mbs - k)
    (hacc : fast = false → ∀ k m, 1 ≤ m.length → m.length ≤ k → O.chk k m (O.enc k m) = true)
    (content : Bytes) :
    ∀ b ∈ assemble kOf hashLen mbs content (genTrack O.H O.enc kOf content) (content.length + 1) 0 0,
      needsRepair O fast b = false := by
  rw [C10_agree_whole kOf hk hashLen mbs O.H O.enc hH henc hpos content]
  intro b hb
  rw [List.mem_map] at hb
  obtain ⟨lb, hlb, rfl⟩ := hb
  have hm := layoutGen_mem kOf content.length _ _ lb hlb
  have hl := slice_length content lb
  have := hk lb.off
  exact needsRepair_own O fast hacc _ _ _ (by omega) (by omega)

/-- `assembleHeader` depends on `readLen` only through `content.take readLen` -/
theorem assembleHeader_congr_take (k hashLen mbs r r' : Nat) (content track : Bytes)
    (h : content.take r = content.take r') :
    ∀ fuel i j, assembleHeader k hashLen mbs r content track fuel i j =
      assembleHeader k hashLen mbs r' content track fuel i j := by
  intro fuel
  induction fuel with
  | zero => intro i j; rfl
  | succ fuel ih =>
    intro i j
    simp only [assembleHeader, h, ih]

theorem header_gen_clean (O : Ops) (fast : Bool) (k hashLen mbs headerSize : Nat)
    (hk : 1 ≤ k) (hpos : 1 ≤ hashLen + (mbs - k))
    (hH : ∀ m, (O.H m).length = hashLen)
    (henc : ∀ k m, 1 ≤ m.length → m.length ≤ k → (O.enc k m).length = mbs - k)
    (hacc : fast = false → ∀ k m, 1 ≤ m.length → m.length ≤ k → O.chk k m (O.enc k m) = true)
    (content : Bytes) :
    ∀ b ∈ assembleHeader k hashLen mbs headerSize content
        (genTrackHeader O.H O.enc k headerSize content) (content.length + 1) 0 0,
      needsRepair O fast b = false := by
  rw [C10_agree_header k hashLen mbs headerSize hk O.H O.enc hH (henc k) hpos content]
  intro b hb
  rw [List.mem_map] at hb
  obtain ⟨lb, hlb, rfl⟩ := hb
  have hm := layoutHeader_mem k headerSize content.length _ _ lb hlb
  have hl := slice_length content lb
  exact needsRepair_own O fast hacc _ _ _ (by omega) (by omega)

/-- the number of bytes the header tool reads gives the same header as `headerSize` whenever the
recorded size is the size of the file -/
theorem take_readLen (content : Bytes) (headerSize : Nat) :
    content.take (if 0 < content.length ∧ content.length < headerSize then content.length
      else headerSize) = content.take headerSize := by
  split
  · next h =>
    rw [List.take_length, List.take_of_length_le (by omega)]
  · rfl

/-! ## blocks that are accepted or repaired to the original (C01) -/

/-- the bytes of the original file at the place of block `b` -/
def fixOf (orig : Bytes) (b : AsmBlock) : Bytes := (orig.drop b.off).take b.msg.length

/-- `BlockOK` of C01 with the `let` unfolded -/
def BlockOK' (O : Ops) (fast : Bool) (mbs : Nat) (orig : Bytes) (b : AsmBlock) : Prop :=
  (b.msg = fixOf orig b ∧ needsRepair O fast b = false) ∨
  (needsRepair O fast b = true ∧ ∃ p, O.dec b.k b.msg b.ecc = some (fixOf orig b, p) ∧
      (O.H (fixOf orig b) = b.hash ∨
        (O.chk b.k (fixOf orig b) p = true ∧ eccComplete mbs b = true)))

theorem stepOK_of_blockOK (O : Ops) (fast : Bool) (mbs : Nat) (orig : Bytes) (b : AsmBlock)
    (h : BlockOK' O fast mbs orig b) : StepOK O fast mbs (fixOf orig) b := by
  rcases h with ⟨hm, hn⟩ | ⟨hn, p, hd, hc⟩
  · left
    refine ⟨hn, ?_⟩
    rw [processBlock_of_clean O fast mbs b hn, ← hm]
  · right
    refine ⟨hn, ?_⟩
    have hcommit : (decide (O.H (fixOf orig b) = b.hash) ||
        (O.chk b.k (fixOf orig b) p && eccComplete mbs b)) = true := by
      rcases hc with hc | ⟨hc, he⟩
      · rw [decide_eq_true hc, Bool.true_or]
      · rw [hc, he, Bool.and_self, Bool.or_true]
    simp only [processBlock, hn, if_true, hd, hcommit]

/-- if no block needs repair, the blocks are those of the original -/
theorem map_msg_eq_of_clean (O : Ops) (fast : Bool) (mbs : Nat) (orig : Bytes) (blocks : List AsmBlock)
    (hok : ∀ b ∈ blocks, BlockOK' O fast mbs orig b)
    (hany : blocks.any (needsRepair O fast) = false) :
    blocks.map (·.msg) = blocks.map (fixOf orig) := by
  apply List.map_congr_left
  intro b hb
  rw [List.any_eq_false] at hany
  rcases hok b hb with ⟨hm, _⟩ | ⟨hn, _⟩
  · exact hm
  · exact absurd hn (hany b hb)

theorem take_drop_add (x : Bytes) (c a b : Nat) :
    (x.drop c).take (a + b) = (x.drop c).take a ++ (x.drop (c + a)).take b := by
  rw [List.take_add, List.drop_drop]

/-- whole-file tool: the blocks assembled sit one after the other, so the original bytes at their
places concatenate to a segment of the original -/
theorem assemble_fix_flatten (kOf : Nat → Nat) (hashLen mbs : Nat) (orig content track : Bytes) :
    ∀ fuel c e,
      ((assemble kOf hashLen mbs content track fuel c e).map (fixOf orig)).flatten =
        (orig.drop c).take
          ((assemble kOf hashLen mbs content track fuel c e).map (·.msg)).flatten.length := by
  intro fuel
  induction fuel with
  | zero => intro c e; simp only [assemble, List.map_nil, List.flatten_nil, List.length_nil, List.take_zero]
  | succ fuel ih =>
    intro c e
    simp only [assemble]
    split
    · split
      · simp only [List.map_nil, List.flatten_nil, List.length_nil, List.take_zero]
      · simp only [List.map_cons, List.flatten_cons, List.length_append, ih, fixOf, take_drop_add]
    · simp only [List.map_nil, List.flatten_nil, List.length_nil, List.take_zero]

theorem assembleHeader_nil_of_ge (k hashLen mbs r : Nat) (content track : Bytes) (fuel i j : Nat)
    (h : (content.take r).length ≤ i) :
    assembleHeader k hashLen mbs r content track fuel i j = [] := by
  cases fuel with
  | zero => rfl
  | succ fuel =>
    simp only [assembleHeader]
    rw [if_neg]
    omega

/-- header tool: same fact; the offsets step by `k`, which is the length of every block except
possibly the last one -/
theorem assembleHeader_fix_flatten (k hashLen mbs r : Nat) (orig content track : Bytes) :
    ∀ fuel i j,
      ((assembleHeader k hashLen mbs r content track fuel i j).map (fixOf orig)).flatten =
        (orig.drop i).take
          ((assembleHeader k hashLen mbs r content track fuel i j).map (·.msg)).flatten.length := by
  intro fuel
  induction fuel with
  | zero =>
    intro i j
    simp only [assembleHeader, List.map_nil, List.flatten_nil, List.length_nil, List.take_zero]
  | succ fuel ih =>
    intro i j
    simp only [assembleHeader]
    split
    · next hc =>
      by_cases hk : i + k ≤ (content.take r).length
      · have hl : (((content.take r).drop i).take k).length = k := by
          rw [List.length_take, List.length_drop]; omega
        simp only [List.map_cons, List.flatten_cons, List.length_append, ih, fixOf, take_drop_add, hl]
      · rw [assembleHeader_nil_of_ge k hashLen mbs r content track fuel (i + k) _ (by omega)]
        simp only [List.map_cons, List.map_nil, List.flatten_cons, List.flatten_nil,
          List.append_nil, fixOf]
    · simp only [List.map_nil, List.flatten_nil, List.length_nil, List.take_zero]

/-! ## the two tools on a file all of whose blocks are accepted or repaired -/

theorem correctWholeFile_ok (O : Ops) (fast : Bool) (thr hashLen mbs : Nat) (kOf : Nat → Nat)
    (orig damaged trackD : Bytes) (hlen : damaged.length = orig.length)
    (hcover : ((assemble kOf hashLen mbs damaged trackD (damaged.length + 1) 0 0).map (·.msg)).flatten
                = damaged)
    (hok : ∀ b ∈ assemble kOf hashLen mbs damaged trackD (damaged.length + 1) 0 0,
      BlockOK' O fast mbs orig b) :
    ((assemble kOf hashLen mbs damaged trackD (damaged.length + 1) 0 0).any (needsRepair O fast) = true →
      correctWholeFile O fast thr kOf hashLen mbs damaged trackD =
        { output := some orig, corrupted := true, complete := true, partialRep := false }) ∧
    ((assemble kOf hashLen mbs damaged trackD (damaged.length + 1) 0 0).any (needsRepair O fast) = false →
      correctWholeFile O fast thr kOf hashLen mbs damaged trackD =
        { output := none, corrupted := false, complete := false, partialRep := false } ∧
      damaged = orig) := by
  have hfix := assemble_fix_flatten kOf hashLen mbs orig damaged trackD (damaged.length + 1) 0 0
  have htake : orig.take damaged.length = orig := by rw [hlen, List.take_length]
  rw [hcover, List.drop_zero, htake] at hfix
  constructor
  · intro hany
    obtain ⟨_, hpf, hw, _, hro⟩ := runLoop_ok O fast mbs thr (fixOf orig) _
      (fun b hb => stepOK_of_blockOK O fast mbs orig b (hok b hb))
    have hbody : (runLoop O fast mbs thr
        (assemble kOf hashLen mbs damaged trackD (damaged.length + 1) 0 0)).written.flatten = orig := by
      rw [hw, hfix]
    rw [hany] at hro
    have hdrop : damaged.drop orig.length = [] := by
      rw [← hlen]; exact List.drop_length
    simp only [correctWholeFile, hany, if_true, hro, hpf, hbody, hdrop, List.append_nil,
      Bool.not_false]
  · intro hany
    constructor
    · simp only [correctWholeFile, hany, Bool.false_eq_true, if_false]
    · rw [← hcover, map_msg_eq_of_clean O fast mbs orig _ hok hany, hfix]

theorem correctHeaderFile_ok (O : Ops) (fast : Bool) (thr k hashLen mbs readLen : Nat)
    (orig damaged trackD : Bytes) (hlen : damaged.length = orig.length)
    (hcover : ((assembleHeader k hashLen mbs readLen damaged trackD (damaged.length + 1) 0 0).map
                (·.msg)).flatten = damaged.take readLen)
    (hok : ∀ b ∈ assembleHeader k hashLen mbs readLen damaged trackD (damaged.length + 1) 0 0,
      BlockOK' O fast mbs orig b) :
    ((assembleHeader k hashLen mbs readLen damaged trackD (damaged.length + 1) 0 0).any
        (needsRepair O fast) = true →
      correctHeaderFile O fast thr k hashLen mbs readLen damaged trackD =
        { output := some (orig.take readLen ++ damaged.drop readLen), corrupted := true,
          complete := true, partialRep := false }) ∧
    ((assembleHeader k hashLen mbs readLen damaged trackD (damaged.length + 1) 0 0).any
        (needsRepair O fast) = false →
      correctHeaderFile O fast thr k hashLen mbs readLen damaged trackD =
        { output := none, corrupted := false, complete := false, partialRep := false } ∧
      damaged.take readLen = orig.take readLen) := by
  have hfix := assembleHeader_fix_flatten k hashLen mbs readLen orig damaged trackD
    (damaged.length + 1) 0 0
  have htake : orig.take (damaged.take readLen).length = orig.take readLen := by
    rw [List.take_eq_take_iff, List.length_take]; omega
  rw [hcover, List.drop_zero, htake] at hfix
  obtain ⟨_, hpf, hw, har, _⟩ := runLoop_ok O fast mbs thr (fixOf orig) _
    (fun b hb => stepOK_of_blockOK O fast mbs orig b (hok b hb))
  constructor
  · intro hany
    rw [hany] at har
    have hdrop : damaged.drop (damaged.take readLen).length = damaged.drop readLen := by
      rw [List.length_take]
      by_cases h : readLen ≤ damaged.length
      · rw [Nat.min_eq_left h]
      · rw [Nat.min_eq_right (by omega), List.drop_length, List.drop_eq_nil_of_le (by omega)]
    simp only [correctHeaderFile, har, if_true, hpf, hw, List.length_map, List.drop_length,
      List.map_nil, List.append_nil, hfix, hcover, hdrop, Bool.not_false]
  · intro hany
    rw [hany] at har
    constructor
    · simp only [correctHeaderFile, har, Bool.false_eq_true, if_false]
    · rw [← hcover, map_msg_eq_of_clean O fast mbs orig _ hok hany, hfix]

end Pff.Ecc.B
