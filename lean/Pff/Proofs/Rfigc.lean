import Pff.Model.Rfigc
/-! Helper lemmas for C05 / C16 / C17 (hash database tool). -/
namespace Pff.Rfigc

end Pff.Rfigc
