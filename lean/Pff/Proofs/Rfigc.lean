import Pff.Model.Rfigc
/-! Helper lemmas for C05 / C16 / C17 (hash database tool). Core Lean only. -/
namespace Pff.Rfigc

/-! ## lookup -/

theorem lookup_some {t : Tree} {p : String} {f : File} (h : lookup t p = some f) :
    f ∈ t ∧ f.path = p := by
  unfold lookup at h
  exact ⟨List.mem_of_find?_eq_some h, by simpa using List.find?_some h⟩

theorem lookup_of_mem_nodup {t : Tree} {f : File} (hnd : (t.map (·.path)).Nodup) (hf : f ∈ t) :
    lookup t f.path = some f := by
  induction t with
  | nil => cases hf
  | cons g t ih =>
    simp only [List.map_cons, List.nodup_cons] at hnd
    simp only [lookup, List.find?_cons]
    rcases List.mem_cons.1 hf with rfl | hf'
    · simp
    · have : g.path ≠ f.path := by
        intro h; exact hnd.1 (h ▸ List.mem_map_of_mem hf')
      simp only [this, decide_false]
      exact ih hnd.2 hf'

/-! ## check mode (C05) -/

theorem rowErrors_ne_nil_iff (E : Env) (o : CheckOpts) (t : Tree) (r : Row) :
    rowErrors E o t r ≠ [] ↔
      match lookup t r.path with
      | none => o.skipMissing = false
      | some f =>
        (o.skipHash = false ∧ ((E.H f.content).1 ≠ r.md5 ∨ (E.H f.content).2 ≠ r.sha1)) ∨
        E.extOf f.path ≠ r.ext ∨ f.content.length ≠ r.size ∨
        (o.noMtime = false ∧ f.mtime ≠ r.mtime ∧ E.roundSec f.mtime ≠ E.roundSec r.mtime) := by
  unfold rowErrors
  cases hl : lookup t r.path with
  | none => cases o.skipMissing <;> simp
  | some f =>
    simp only []
    by_cases h1 : (E.H f.content).1 = r.md5 <;> by_cases h2 : (E.H f.content).2 = r.sha1 <;>
    by_cases h3 : E.extOf f.path = r.ext <;> by_cases h4 : f.content.length = r.size <;>
    cases o.skipHash <;> cases o.noMtime <;> simp [h1, h2, h3, h4]

/-- a fresh row checked against its own file has no error -/
theorem rowErrors_rowOf_self (E : Env) (o : CheckOpts) (t : Tree) (f : File)
    (hl : lookup t f.path = some f) : rowErrors E o t (rowOf E f) = [] := by
  apply Classical.byContradiction
  intro h
  have h' := (rowErrors_ne_nil_iff E o t (rowOf E f)).1 h
  simp [rowOf, hl] at h'

theorem check_clean (E : Env) (o : CheckOpts) (t : Tree) (inp : Input) (hnd : (t.map (·.path)).Nodup) :
    check E o (genDb E t) t inp = { reported := [], exit := 0 } := by
  have h : ((genDb E t).filter (concerns inp)).filter (fun r => !(rowErrors E o t r).isEmpty) = [] := by
    rw [List.filter_eq_nil_iff]
    intro r hr
    have hr' := (List.mem_filter.1 hr).1
    simp only [genDb, List.mem_map] at hr'
    obtain ⟨f, hf, rfl⟩ := hr'
    simp [rowErrors_rowOf_self E o t f (lookup_of_mem_nodup hnd hf)]
  simp only [check, h]
  rfl

/-- error status of a fresh row of `f` against another tree, in the shape of `changed` (C05) -/
theorem rowErrors_rowOf_ne_nil_iff (E : Env) (o : CheckOpts) (t' : Tree) (f : File)
    (hcoll : ∀ f' ∈ t', f.path = f'.path → f'.content ≠ f.content →
        (E.H f'.content).1 ≠ (E.H f.content).1 ∨ (E.H f'.content).2 ≠ (E.H f.content).2) :
    (!(rowErrors E o t' (rowOf E f)).isEmpty) =
      match lookup t' f.path with
      | none => !o.skipMissing
      | some f' =>
        (!o.skipHash && decide (f'.content ≠ f.content)) || decide (f'.content.length ≠ f.content.length) ||
        (!o.noMtime && decide (f'.mtime ≠ f.mtime) && decide (E.roundSec f'.mtime ≠ E.roundSec f.mtime)) := by
  rw [Bool.eq_iff_iff]
  have := rowErrors_ne_nil_iff E o t' (rowOf E f)
  rw [Bool.not_eq_true', ← Bool.not_eq_true, List.isEmpty_iff, ← ne_eq, this]
  have hp : (rowOf E f).path = f.path := rfl
  rw [hp]
  cases hl : lookup t' f.path with
  | none => simp
  | some f' =>
    obtain ⟨hm, hpath⟩ := lookup_some hl
    have hc := hcoll f' hm hpath.symm
    have hh : ((E.H f'.content).1 ≠ (E.H f.content).1 ∨ (E.H f'.content).2 ≠ (E.H f.content).2) ↔
        f'.content ≠ f.content := by
      constructor
      · intro h e; rw [e] at h; simp at h
      · exact hc
    simp only [rowOf, hpath, hh]
    simp [or_assoc, and_assoc]

theorem check_single (E : Env) (o : CheckOpts) (db : List Row) (t : Tree) (n : String) :
    (check E o db t (.file n)).reported = ((check E o db t .folder).reported).filter (· = n) := by
  simp only [check, List.filter_map, List.filter_filter]
  congr 1
  apply List.filter_congr
  intro r _
  simp [concerns, Bool.and_comm]

/-! ## update (C16) -/

theorem lookup_isSome_iff {t : Tree} {p : String} :
    (lookup t p).isSome = true ↔ p ∈ t.map (·.path) := by
  unfold lookup
  simp [List.find?_isSome]

theorem updRemove_spec (db : List Row) (t : Tree) (inp : Input) :
    (updRemove db t inp).Sublist db ∧
    (∀ r ∈ db, (lookup t r.path).isSome → r ∈ updRemove db t inp) ∧
    (∀ r ∈ db, r ∉ updRemove db t inp → (lookup t r.path).isNone ∧ concerns inp r = true) := by
  refine ⟨List.filter_sublist, ?_, ?_⟩
  · intro r hr hs
    simp [updRemove, List.mem_filter, hr, hs]
  · intro r hr hn
    simp only [updRemove, List.mem_filter, hr, true_and] at hn
    cases h1 : concerns inp r <;> cases h2 : lookup t r.path <;> simp [h1, h2] at hn ⊢

/-- the files `updAppend` walks -/
def walked (t : Tree) : Input → Tree
  | .folder => t
  | .file n => t.filter (fun f => f.path = n)

theorem updAppend_eq (E : Env) (db : List Row) (t : Tree) (inp : Input) :
    updAppend E db t inp =
      db ++ (((walked t inp).filter (fun f => !(db.map (·.path)).contains f.path)).map (rowOf E)) := by
  cases inp <;> rfl

theorem mem_walked {t : Tree} {inp : Input} {f : File} :
    f ∈ walked t inp ↔ f ∈ t ∧ (match inp with | .folder => True | .file n => f.path = n) := by
  cases inp <;> simp [walked, List.mem_filter]

theorem walked_sublist (t : Tree) (inp : Input) : (walked t inp).Sublist t := by
  cases inp
  · exact List.Sublist.refl _
  · exact List.filter_sublist

theorem updAppend_spec (E : Env) (db : List Row) (t : Tree) (inp : Input)
    (hdb : (db.map (·.path)).Nodup) (ht : (t.map (·.path)).Nodup) :
    ∃ new, updAppend E db t inp = db ++ new ∧
      ((db ++ new).map (·.path)).Nodup ∧
      (∀ r, r ∈ new ↔ ∃ f ∈ t, r = rowOf E f ∧ f.path ∉ db.map (·.path) ∧
          (match inp with | .folder => True | .file n => f.path = n)) := by
  refine ⟨_, updAppend_eq E db t inp, ?_, ?_⟩
  · rw [List.map_append, List.nodup_append]
    refine ⟨hdb, ?_, ?_⟩
    · rw [List.map_map]
      have : (fun r : Row => r.path) ∘ rowOf E = fun f : File => f.path := rfl
      rw [this]
      exact (((List.filter_sublist).trans (walked_sublist t inp)).map _).nodup ht
    · intro a ha b hb
      simp only [List.map_map, List.mem_map, List.mem_filter, Function.comp] at hb
      obtain ⟨f, ⟨_, hf⟩, rfl⟩ := hb
      intro e
      subst e
      simp at hf
      simp at ha
      obtain ⟨r, hr, hre⟩ := ha
      exact hf r hr hre
  · intro r
    simp only [List.mem_map, List.mem_filter, mem_walked]
    constructor
    · rintro ⟨f, ⟨⟨hf, hm⟩, hc⟩, rfl⟩
      refine ⟨f, hf, rfl, ?_, hm⟩
      simpa using hc
    · rintro ⟨f, hf, rfl, hc, hm⟩
      refine ⟨f, ⟨⟨hf, hm⟩, ?_⟩, rfl⟩
      simpa using hc


/-- `Consistent` of C16 on the components of a state -/
def ConsistentP (E : Env) (tree : Tree) (db : List Row) : Prop :=
  (db.map (·.path)).Nodup ∧ (tree.map (·.path)).Nodup ∧
  ∀ r ∈ db, ∀ f, lookup tree r.path = some f → core r = core (rowOf E f)

theorem genDb_consistent (E : Env) (t : Tree) (ht : (t.map (·.path)).Nodup) :
    ConsistentP E t (genDb E t) := by
  refine ⟨?_, ht, ?_⟩
  · have : (fun r : Row => r.path) ∘ rowOf E = fun f : File => f.path := rfl
    rw [genDb, List.map_map, this]
    exact ht
  · intro r hr f hl
    simp only [genDb, List.mem_map] at hr
    obtain ⟨g, hg, rfl⟩ := hr
    have := lookup_of_mem_nodup ht hg
    have hp : (rowOf E g).path = g.path := rfl
    rw [hp, this] at hl
    cases hl; rfl

theorem nodup_filter_paths {t : Tree} (q : File → Bool) (ht : (t.map (·.path)).Nodup) :
    ((t.filter q).map (·.path)).Nodup :=
  ((List.filter_sublist (p := q)).map _).nodup ht

theorem lookup_filter_ne {t : Tree} {p q : String} {f : File} (ht : (t.map (·.path)).Nodup)
    (h : lookup (t.filter (fun g => g.path ≠ p)) q = some f) : lookup t q = some f := by
  obtain ⟨hm, hp⟩ := lookup_some h
  subst hp
  exact lookup_of_mem_nodup ht (List.mem_filter.1 hm).1

theorem consistent_add (E : Env) (t : Tree) (db : List Row) (f : File)
    (h : ConsistentP E t db) (hadm : ∀ r ∈ db, r.path = f.path → core r = core (rowOf E f)) :
    ConsistentP E (f :: t.filter (fun g => g.path ≠ f.path)) db := by
  obtain ⟨h1, h2, h3⟩ := h
  refine ⟨h1, ?_, ?_⟩
  · rw [List.map_cons, List.nodup_cons]
    refine ⟨?_, nodup_filter_paths _ h2⟩
    simp [List.mem_map, List.mem_filter]
  · intro r hr g hl
    by_cases hp : f.path = r.path
    · have : lookup (f :: t.filter (fun g => g.path ≠ f.path)) r.path = some f := by
        simp [lookup, hp]
      rw [this] at hl
      cases hl
      exact hadm r hr hp.symm
    · have : lookup (f :: t.filter (fun g => g.path ≠ f.path)) r.path =
          lookup (t.filter (fun g => g.path ≠ f.path)) r.path := by
        simp [lookup, hp]
      rw [this] at hl
      exact h3 r hr g (lookup_filter_ne h2 hl)

theorem consistent_delete (E : Env) (t : Tree) (db : List Row) (p : String)
    (h : ConsistentP E t db) : ConsistentP E (t.filter (fun g => g.path ≠ p)) db := by
  obtain ⟨h1, h2, h3⟩ := h
  exact ⟨h1, nodup_filter_paths _ h2, fun r hr g hl => h3 r hr g (lookup_filter_ne h2 hl)⟩

theorem consistent_remove (E : Env) (t : Tree) (db : List Row) (inp : Input)
    (h : ConsistentP E t db) : ConsistentP E t (updRemove db t inp) := by
  obtain ⟨h1, h2, h3⟩ := h
  have hs := (updRemove_spec db t inp).1
  exact ⟨(hs.map _).nodup h1, h2, fun r hr => h3 r (hs.subset hr)⟩

theorem consistent_append (E : Env) (t : Tree) (db : List Row) (inp : Input)
    (h : ConsistentP E t db) : ConsistentP E t (updAppend E db t inp) := by
  obtain ⟨h1, h2, h3⟩ := h
  obtain ⟨new, he, hnd, hnew⟩ := updAppend_spec E db t inp h1 h2
  rw [he]
  refine ⟨hnd, h2, ?_⟩
  intro r hr g hl
  rcases List.mem_append.1 hr with hr | hr
  · exact h3 r hr g hl
  · obtain ⟨f, hf, rfl, -, -⟩ := (hnew r).1 hr
    have hp : (rowOf E f).path = f.path := rfl
    rw [hp, lookup_of_mem_nodup h2 hf] at hl
    cases hl; rfl

theorem consistent_step (E : Env) (s : State) (op : Op) (h : ConsistentP E s.tree s.db)
    (hadm : match op with
      | .add f => ∀ r ∈ s.db, r.path = f.path → core r = core (rowOf E f)
      | _ => True) :
    ConsistentP E (step E s op).tree (step E s op).db := by
  cases op with
  | add f => exact consistent_add E s.tree s.db f h hadm
  | delete p => exact consistent_delete E s.tree s.db p h
  | update a r inp =>
    simp only [step]
    cases a <;> cases r <;> simp only [if_true, if_false, Bool.false_eq_true]
    · exact h
    · exact consistent_remove E _ _ inp h
    · exact consistent_append E _ _ inp h
    · exact consistent_append E _ _ inp (consistent_remove E _ _ inp h)

theorem run_cons (E : Env) (s : State) (op : Op) (ops : List Op) :
    run E s (op :: ops) = run E (step E s op) ops := rfl

theorem run_append_singleton (E : Env) (s : State) (ops : List Op) (op : Op) :
    run E s (ops ++ [op]) = step E (run E s ops) op := by
  simp [run, List.foldl_append]

/-- the final `--update -a -r` on the folder of a consistent state gives the fresh database -/
theorem converge_final (E : Env) (t : Tree) (db : List Row) (h : ConsistentP E t db) :
    let s := step E { tree := t, db := db } (.update true true .folder)
    s.tree = t ∧ (s.db.map (·.path)).Nodup ∧
    ∀ x, x ∈ s.db.map core ↔ x ∈ (genDb E t).map core := by
  have hc := consistent_remove E t db .folder h
  obtain ⟨h1, h2, h3⟩ := hc
  obtain ⟨new, he, hnd, hnew⟩ := updAppend_spec E (updRemove db t .folder) t .folder h1 h2
  have hdb : (step E { tree := t, db := db } (.update true true .folder)).db =
      updRemove db t .folder ++ new := he
  refine ⟨rfl, ?_, ?_⟩
  · rw [hdb]; exact hnd
  · intro x
    rw [hdb]
    simp only [List.mem_map, genDb, List.mem_append]
    constructor
    · rintro ⟨r, hr | hr, rfl⟩
      · have hs : (lookup t r.path).isSome = true := by
          simpa [updRemove, concerns] using (List.mem_filter.1 hr).2
        obtain ⟨f, hf⟩ := Option.isSome_iff_exists.1 hs
        exact ⟨rowOf E f, ⟨f, (lookup_some hf).1, rfl⟩, (h3 r hr f hf).symm⟩
      · obtain ⟨f, hf, rfl, -, -⟩ := (hnew r).1 hr
        exact ⟨rowOf E f, ⟨f, hf, rfl⟩, rfl⟩
    · rintro ⟨_, ⟨f, hf, rfl⟩, rfl⟩
      by_cases hp : f.path ∈ (updRemove db t .folder).map (·.path)
      · obtain ⟨r, hr, hrp⟩ := List.mem_map.1 hp
        refine ⟨r, Or.inl hr, ?_⟩
        apply h3 r hr f
        rw [hrp]
        exact lookup_of_mem_nodup h2 hf
      · exact ⟨rowOf E f, Or.inr ((hnew _).2 ⟨f, hf, rfl, hp, trivial⟩), rfl⟩

/-! ## file-scraping recovery (C17) -/

theorem getLast?_mem {α} {l : List α} {a : α} (h : l.getLast? = some a) : a ∈ l := by
  obtain ⟨ys, rfl⟩ := List.getLast?_eq_some_iff.1 h
  simp

theorem getLast?_of_forall_eq {α} {l : List α} {w : α} (hall : ∀ x ∈ l, x = w) (hne : l ≠ []) :
    l.getLast? = some w := by
  cases h : l.getLast? with
  | none => exact absurd (List.getLast?_eq_none_iff.1 h) hne
  | some x => rw [hall x (getLast?_mem h)]

theorem lastIndex_some {keys : List (Nat × Nat)} {k : Nat × Nat} {i : Nat}
    (h : lastIndex keys k = some i) : keys[i]? = some k := by
  unfold lastIndex at h
  cases hl : (keys.zipIdx.filter (fun ki => ki.1 = k)).getLast? with
  | none => simp [hl] at h
  | some x =>
    rw [hl] at h
    simp only [Option.map_some, Option.some.injEq] at h
    have hx := List.mem_filter.1 (getLast?_mem hl)
    have h1 := List.mem_zipIdx_iff_getElem?.1 hx.1
    have h2 : x.1 = k := by simpa using hx.2
    rw [← h, h1, h2]

theorem lastIndex_unique {keys : List (Nat × Nat)} {k : Nat × Nat} {i : Nat}
    (huniq : ∀ j, keys[j]? = some k → j = i)
    (hi : keys[i]? = some k) : lastIndex keys k = some i := by
  unfold lastIndex
  have hmem : (k, i) ∈ keys.zipIdx.filter (fun ki => ki.1 = k) := by
    rw [List.mem_filter]
    exact ⟨List.mem_zipIdx_iff_getElem?.2 hi, by simp⟩
  have hall : ∀ x ∈ keys.zipIdx.filter (fun ki => ki.1 = k), x = (k, i) := by
    intro x hx
    have hx := List.mem_filter.1 hx
    have h1 := List.mem_zipIdx_iff_getElem?.1 hx.1
    have h2 : x.1 = k := by simpa using hx.2
    rw [h2] at h1
    have h3 := huniq x.2 h1
    obtain ⟨x1, x2⟩ := x
    simp only at h2 h3
    rw [h2, h3]
  rw [getLast?_of_forall_eq hall (List.ne_nil_of_mem hmem)]
  rfl

theorem genDb_getElem? (E : Env) (orig : Tree) (i : Nat) :
    (genDb E orig)[i]? = orig[i]?.map (rowOf E) := by
  simp [genDb]

/-- the pair of hashes of a generated row -/
theorem genDb_keys_getElem? (E : Env) (orig : Tree) (i : Nat) :
    ((genDb E orig).map (fun r => (r.md5, r.sha1)))[i]? = orig[i]?.map (fun f => E.H f.content) := by
  rw [List.getElem?_map, genDb_getElem?]
  cases orig[i]? with
  | none => rfl
  | some f => rfl

/-- a recognised content is a recorded one, as soon as its pair of hashes collides with no other
recorded content -/
theorem recognise_some {E : Env} {orig : Tree} {c : Bytes} {r : Row}
    (hc : ∀ f ∈ orig, E.H f.content = E.H c → f.content = c)
    (h : recognise E (genDb E orig) c = some r) : ∃ f ∈ orig, r = rowOf E f ∧ f.content = c := by
  unfold recognise at h
  split at h
  · rename_i i hi
    have hk := lastIndex_some hi
    rw [genDb_keys_getElem?] at hk
    rw [genDb_getElem?] at h
    cases ho : orig[i]? with
    | none => simp [ho] at h
    | some f =>
      rw [ho] at h hk
      simp only [Option.map_some, Option.some.injEq] at h hk
      subst h
      have hf : f ∈ orig := List.mem_of_getElem? ho
      exact ⟨f, hf, rfl, hc f hf hk⟩
  · cases h

theorem getElem?_unique_of_nodup {α β} (key : α → β) {l : List α} (hnd : (l.map key).Nodup)
    {i j : Nat} {a b : α} (hi : l[i]? = some a) (hj : l[j]? = some b) (hk : key b = key a) :
    j = i := by
  have hlt : i < (l.map key).length := by
    rw [List.length_map]; exact (List.getElem?_eq_some_iff.1 hi).1
  have : (l.map key)[i]? = (l.map key)[j]? := by
    simp [List.getElem?_map, hi, hj, hk]
  exact ((List.getElem?_inj hlt hnd).1 this).symm

/-- a recorded content is recognised as its own row, when recorded contents are distinct and
their pairs of hashes do not collide with its pair -/
theorem recognise_known {E : Env} {orig : Tree} {f : File} (hf : f ∈ orig)
    (hdistinct : (orig.map (·.content)).Nodup)
    (hc : ∀ g ∈ orig, E.H g.content = E.H f.content → g.content = f.content) :
    recognise E (genDb E orig) f.content = some (rowOf E f) := by
  obtain ⟨i, hi⟩ := List.mem_iff_getElem?.1 hf
  have h1 : lastIndex ((genDb E orig).map (fun r => (r.md5, r.sha1))) (E.H f.content) = some i := by
    apply lastIndex_unique
    · intro j hj
      rw [genDb_keys_getElem?] at hj
      cases ho : orig[j]? with
      | none => simp [ho] at hj
      | some g =>
        rw [ho] at hj
        simp only [Option.map_some, Option.some.injEq] at hj
        exact getElem?_unique_of_nodup (·.content) hdistinct hi ho
          (hc g (List.mem_of_getElem? ho) hj)
    · rw [genDb_keys_getElem?, hi]; rfl
  unfold recognise
  simp only [h1, genDb_getElem?, hi, Option.map_some]


theorem scrapeWrites_cons_unknown (E : Env) (orig : Tree) (scraped : List Bytes) (c : Bytes)
    (hcoll : ∀ f ∈ orig, E.H f.content = E.H c → f.content = c)
    (hc : c ∉ orig.map (·.content)) :
    scrapeWrites E (genDb E orig) (c :: scraped) = scrapeWrites E (genDb E orig) scraped := by
  have hr : recognise E (genDb E orig) c = none := by
    cases h : recognise E (genDb E orig) c with
    | none => rfl
    | some r =>
      obtain ⟨f, hf, -, hfc⟩ := recognise_some hcoll h
      exact absurd (List.mem_map.2 ⟨f, hf, hfc⟩) hc
  simp [scrapeWrites, hr]

/-- the writes to path `p` -/
theorem mem_scrapeWrites_path {E : Env} {orig : Tree} {scraped : List Bytes}
    (hpaths : (orig.map (·.path)).Nodup) (hdistinct : (orig.map (·.content)).Nodup)
    (hcoll : ∀ a ∈ orig.map (·.content) ++ scraped, ∀ b ∈ orig.map (·.content) ++ scraped,
      E.H a = E.H b → a = b) (p : String) (w : OutFile) :
    w ∈ (scrapeWrites E (genDb E orig) scraped).filter (fun w => w.path = p) ↔
      ∃ f, lookup orig p = some f ∧ f.content ∈ scraped ∧
        w = { path := p, content := f.content, mtime := f.mtime } := by
  have hmemc : ∀ f ∈ orig, f.content ∈ orig.map (·.content) ++ scraped := fun f hf =>
    List.mem_append_left _ (List.mem_map_of_mem hf)
  simp only [scrapeWrites, List.mem_filter, List.mem_filterMap, Option.map_eq_some_iff,
    decide_eq_true_eq]
  constructor
  · rintro ⟨⟨c, hcs, r, hr, rfl⟩, hp⟩
    have hcm : c ∈ orig.map (·.content) ++ scraped := List.mem_append_right _ hcs
    obtain ⟨f, hf, rfl, rfl⟩ := recognise_some
      (fun f hf e => hcoll _ (hmemc f hf) _ hcm e) hr
    simp only [rowOf] at hp
    subst hp
    exact ⟨f, lookup_of_mem_nodup hpaths hf, hcs, rfl⟩
  · rintro ⟨f, hl, hcs, rfl⟩
    obtain ⟨hf, hp⟩ := lookup_some hl
    refine ⟨⟨f.content, hcs, rowOf E f, ?_, ?_⟩, rfl⟩
    · exact recognise_known hf hdistinct
        (fun g hg e => hcoll _ (hmemc g hg) _ (hmemc f hf) e)
    · simp [rowOf, hp]

theorem scrapeOutput_spec (E : Env) (orig : Tree) (scraped : List Bytes)
    (hpaths : (orig.map (·.path)).Nodup) (hdistinct : (orig.map (·.content)).Nodup)
    (hcoll : ∀ a ∈ orig.map (·.content) ++ scraped, ∀ b ∈ orig.map (·.content) ++ scraped,
      E.H a = E.H b → a = b) (p : String) :
    scrapeOutput E (genDb E orig) scraped p =
      match lookup orig p with
      | some f => if f.content ∈ scraped then some { path := p, content := f.content, mtime := f.mtime } else none
      | none => none := by
  have hm := mem_scrapeWrites_path hpaths hdistinct hcoll p
  unfold scrapeOutput
  cases hl : lookup orig p with
  | none =>
    simp only []
    rw [List.getLast?_eq_none_iff, List.eq_nil_iff_forall_not_mem]
    intro w hw
    obtain ⟨f, hf, -⟩ := (hm w).1 hw
    rw [hl] at hf; cases hf
  | some f =>
    simp only []
    by_cases hc : f.content ∈ scraped
    · rw [if_pos hc]
      apply getLast?_of_forall_eq
      · intro w hw
        obtain ⟨g, hg, -, rfl⟩ := (hm w).1 hw
        rw [hl] at hg; cases hg; rfl
      · exact List.ne_nil_of_mem ((hm _).2 ⟨f, hl, hc, rfl⟩)
    · rw [if_neg hc, List.getLast?_eq_none_iff, List.eq_nil_iff_forall_not_mem]
      intro w hw
      obtain ⟨g, hg, hgc, -⟩ := (hm w).1 hw
      rw [hl] at hg; cases hg
      exact hc hgc

end Pff.Rfigc
