import Pff.Model.Path
/-!
Helper lemmas about the POSIX path model (`Pff/Model/Path.lean`): `splitSlash` / `joinSlash`,
`join2`, `normpath`, `abspath`, `relpath`, `pureParts`, `path2unix`, `basename`, `dirname`.
-/
namespace Pff.Path

/-! ## `splitSlash` -/

theorem splitSlash_sep (b : Bytes) : splitSlash (sep :: b) = [] :: splitSlash b := by
  simp [splitSlash]

theorem splitSlash_cons_ne (c : Nat) (rest : Bytes) (hc : c ≠ sep) (h : Bytes) (t : List Bytes)
    (e : splitSlash rest = h :: t) : splitSlash (c :: rest) = (c :: h) :: t := by
  simp [splitSlash, hc, e]

theorem getLast?_append_ne_nil (a b : Bytes) (hb : b ≠ []) : (a ++ b).getLast? = b.getLast? := by
  obtain ⟨x, hx⟩ : ∃ x, b.getLast? = some x := ⟨b.getLast hb, List.getLast?_eq_some_getLast hb⟩
  rw [List.getLast?_append, hx]; rfl

theorem splitSlash_ne_nil (p : Bytes) : splitSlash p ≠ [] := by
  cases p with
  | nil => simp [splitSlash]
  | cons c rest =>
    unfold splitSlash
    split
    · simp
    · split <;> simp

theorem splitSlash_nosep (a : Bytes) (h : sep ∉ a) : splitSlash a = [a] := by
  induction a with
  | nil => rfl
  | cons c rest ih =>
    simp only [List.mem_cons, not_or] at h
    have hc : c ≠ sep := fun e => h.1 e.symm
    exact splitSlash_cons_ne c rest hc _ _ (ih h.2)

theorem splitSlash_append (a b : Bytes) (h : sep ∉ a) :
    splitSlash (a ++ sep :: b) = a :: splitSlash b := by
  induction a with
  | nil => simp [splitSlash]
  | cons c rest ih =>
    simp only [List.mem_cons, not_or] at h
    have hc : c ≠ sep := fun e => h.1 e.symm
    rw [List.cons_append]
    exact splitSlash_cons_ne c _ hc _ _ (ih h.2)

theorem splitSlash_mem_nosep (p : Bytes) : ∀ x ∈ splitSlash p, sep ∉ x := by
  induction p with
  | nil => simp [splitSlash]
  | cons c rest ih =>
    unfold splitSlash
    split
    · intro x hx
      rw [List.mem_cons] at hx
      rcases hx with rfl | hx
      · simp
      · exact ih x hx
    · rename_i hc
      split
      · intro x hx
        simp only [List.mem_singleton] at hx
        subst hx
        simp only [List.mem_singleton]
        exact fun e => hc e.symm
      · rename_i h t heq
        rw [heq] at ih
        intro x hx
        rw [List.mem_cons] at hx
        rcases hx with rfl | hx
        · have := ih h (by simp)
          simp only [List.mem_cons, not_or]
          exact ⟨fun e => hc e.symm, this⟩
        · exact ih x (by simp [hx])

/-! ## `joinSlash` -/

theorem joinSlash_cons (c : Bytes) (rest : List Bytes) (h : rest ≠ []) :
    joinSlash (c :: rest) = c ++ sep :: joinSlash rest := by
  cases rest with
  | nil => exact absurd rfl h
  | cons d r => rfl

theorem joinSlash_append (a b : List Bytes) (ha : a ≠ []) (hb : b ≠ []) :
    joinSlash (a ++ b) = joinSlash a ++ sep :: joinSlash b := by
  induction a with
  | nil => exact absurd rfl ha
  | cons c rest ih =>
    cases rest with
    | nil => simp only [List.cons_append, List.nil_append, joinSlash_cons c b hb]; rfl
    | cons d r =>
      have h1 : (d :: r) ≠ [] := by simp
      rw [List.cons_append, joinSlash_cons c _ (by simp), ih h1, joinSlash_cons c _ h1]
      simp

theorem joinSlash_snoc (a : List Bytes) (f : Bytes) (ha : a ≠ []) :
    joinSlash (a ++ [f]) = joinSlash a ++ sep :: f := by
  rw [joinSlash_append a [f] ha (by simp)]; rfl

theorem splitSlash_joinSlash (comps : List Bytes) (hne : comps ≠ [])
    (h : ∀ c ∈ comps, sep ∉ c) : splitSlash (joinSlash comps) = comps := by
  induction comps with
  | nil => exact absurd rfl hne
  | cons c rest ih =>
    cases rest with
    | nil => exact splitSlash_nosep c (h c (by simp))
    | cons d r =>
      rw [joinSlash_cons c _ (by simp), splitSlash_append _ _ (h c (by simp)),
        ih (by simp) (fun x hx => h x (List.mem_cons_of_mem _ hx))]

theorem Plain.ne_nil {c : Bytes} (h : Plain c) : c ≠ [] := h.1
theorem Plain.nosep {c : Bytes} (h : Plain c) : sep ∉ c := h.2.1

theorem Plain.head {c : Bytes} (h : Plain c) : c.head? ≠ some sep := by
  cases c with
  | nil => simp
  | cons x r =>
    have := h.2.1
    simp only [List.mem_cons, not_or] at this
    simp only [List.head?_cons, ne_eq, Option.some.injEq]
    exact fun e => this.1 e.symm

theorem Plain.getLast {c : Bytes} (h : Plain c) : c.getLast? ≠ some sep := by
  intro e
  exact h.2.1 (List.mem_of_getLast? e)

theorem head?_append_of_ne_nil {a : Bytes} (b : Bytes) (h : a ≠ []) :
    (a ++ b).head? = a.head? := by
  cases a with
  | nil => exact absurd rfl h
  | cons x r => rfl

theorem joinSlash_head (comps : List Bytes) (h : ∀ c ∈ comps, Plain c) :
    (joinSlash comps).head? ≠ some sep := by
  cases comps with
  | nil => simp [joinSlash]
  | cons c rest =>
    have hc := h c (by simp)
    cases rest with
    | nil => exact hc.head
    | cons d r =>
      rw [joinSlash_cons c _ (by simp), head?_append_of_ne_nil _ hc.ne_nil]
      exact hc.head

theorem joinSlash_ne_nil (comps : List Bytes) (hne : comps ≠ []) (h : ∀ c ∈ comps, Plain c) :
    joinSlash comps ≠ [] := by
  cases comps with
  | nil => exact absurd rfl hne
  | cons c rest =>
    have hc := h c (by simp)
    cases rest with
    | nil => exact hc.ne_nil
    | cons d r =>
      rw [joinSlash_cons c _ (by simp)]
      simp

theorem joinSlash_getLast (comps : List Bytes) (hne : comps ≠ []) (h : ∀ c ∈ comps, Plain c) :
    (joinSlash comps).getLast? ≠ some sep := by
  induction comps with
  | nil => exact absurd rfl hne
  | cons c rest ih =>
    cases rest with
    | nil => exact (h c (by simp)).getLast
    | cons d r =>
      have h' : ∀ x ∈ d :: r, Plain x := fun x hx => h x (List.mem_cons_of_mem _ hx)
      rw [joinSlash_cons c _ (by simp)]
      have hne' := joinSlash_ne_nil (d :: r) (by simp) h'
      have : c ++ sep :: joinSlash (d :: r) = (c ++ [sep]) ++ joinSlash (d :: r) := by simp
      rw [this, getLast?_append_ne_nil _ _ hne']
      exact ih (by simp) h'

theorem joinSlash_inj (a b : List Bytes) (ha : ∀ c ∈ a, Plain c) (hb : ∀ c ∈ b, Plain c)
    (h : joinSlash a = joinSlash b) : a = b := by
  by_cases ea : a = []
  · by_cases eb : b = []
    · rw [ea, eb]
    · exfalso
      apply joinSlash_ne_nil b eb hb
      rw [← h, ea]; rfl
  · by_cases eb : b = []
    · exfalso
      apply joinSlash_ne_nil a ea ha
      rw [h, eb]; rfl
    · rw [← splitSlash_joinSlash a ea (fun c hc => (ha c hc).nosep),
        ← splitSlash_joinSlash b eb (fun c hc => (hb c hc).nosep), h]

end Pff.Path
