import Pff.Consts
import Pff.Model.Vote
import Pff.Model.Diff
import Pff.Model.Scan
import Pff.Model.Tamper
import Pff.Model.Layout
import Pff.Model.GF
import Pff.Model.Facade
import Pff.Model.Merge
import Pff.Model.DupDb
import Pff.Model.Rfigc
import Pff.Model.Ecc
import Pff.Model.Entry
import Pff.Model.Run
import Pff.Model.Csv
import Pff.Model.Path
import Pff.Model.RfigcDb
import Pff.Model.Hasher
/-!
Line-protocol driver: one request per line on stdin, one canonical reply per line on stdout.
Run with `lake env lean --run Pff/Driver.lean`. Byte strings are hex ("-" = empty); lists of
numbers are comma separated ("-" = empty). Unknown / malformed requests answer `bad-op`
(never a default value).
-/
namespace Pff.Driver

def hexVal (c : Char) : Option Nat :=
  if '0' ≤ c ∧ c ≤ '9' then some (c.toNat - '0'.toNat)
  else if 'a' ≤ c ∧ c ≤ 'f' then some (c.toNat - 'a'.toNat + 10)
  else none

def parseHexAux : List Char → List Nat → Option (List Nat)
  | [], acc => some acc.reverse
  | [_], _ => none
  | a :: b :: t, acc => do
      let x ← hexVal a
      let y ← hexVal b
      parseHexAux t ((x * 16 + y) :: acc)

def parseHex (s : String) : Option (List Nat) :=
  if s == "-" then some [] else parseHexAux s.toList []

def hexDigit (n : Nat) : Char := "0123456789abcdef".toList.getD n '?'

def toHex (l : List Nat) : String :=
  if l.isEmpty then "-" else String.ofList (l.flatMap (fun b => [hexDigit (b / 16), hexDigit (b % 16)]))

def showNums (l : List Nat) : String :=
  if l.isEmpty then "-" else ",".intercalate (l.map toString)

def parseNums (s : String) : Option (List Nat) :=
  if s == "-" then some [] else (s.splitOn ",").mapM (·.toNat?)

def allSome {α} (l : List (Option α)) : Option (List α) := l.mapM id

/-- tree tokens `pathhex:contenthex` (the hex text of the path is used as the path key) -/
def parseTree (toks : List String) : Option Pff.Diff.Tree :=
  toks.mapM (fun t => match t.splitOn ":" with
    | [p, c] => (parseHex c).map (fun c => (p, c))
    | _ => none)

def splitAt (sep : String) (toks : List String) : List String × List String :=
  (toks.takeWhile (· ≠ sep), (toks.dropWhile (· ≠ sep)).drop 1)

def parseTamperParams (mode blockCoin burst header bs : String) : Option Pff.Tamper.Params := do
  let m ← match mode with
    | "e" => some Pff.Tamper.Mode.erasure | "n" => some Pff.Tamper.Mode.noise | "o" => some Pff.Tamper.Mode.other
    | _ => none
  let bc ← blockCoin.toNat?
  let bu ← burst.toNat?
  let h ← if header == "-" then some none else header.toNat?.map some
  let bs ← bs.toNat?
  some { mode := m, blockCoin := bc ≠ 0, burst := bu ≠ 0, header := h, blocksize := bs }

/-- stub hash / encoder shared with the harness (recognisable, length-exact) -/
def stubH (hl : Nat) (m : List Nat) : List Nat := List.replicate hl ((m.sum + m.length) % 256)
def stubEnc (mbs k : Nat) (m : List Nat) : List Nat := List.replicate (mbs - k) ((m.sum * 3 + k) % 256)

def showBlocks (l : List Pff.Layout.Block) : String :=
  if l.isEmpty then "-" else " ".intercalate (l.map (fun b => s!"{b.off}:{b.len}:{b.k}"))

def showAsm (l : List Pff.Layout.AsmBlock) : String :=
  if l.isEmpty then "-" else " ".intercalate (l.map (fun b => s!"{b.off}:{b.msg.length}:{b.k}:{toHex b.hash}:{toHex b.ecc}"))

def parseFloatBits (s : String) : Option Float := s.toNat?.map (fun n => Float.ofBits (UInt64.ofNat n))

open Pff.GF in
def codecOf (p : Params) (algo n k fcr : Nat) : Pff.Facade.Codec (Elt p) :=
  { algo := algo, n := n, k := k, pw := Elt.gpow p, fcr := fcr }

open Pff.GF in
def eltList (p : Params) (l : List Nat) : List (Elt p) := l.map (Elt.ofNat p)
open Pff.GF in
def natList {p : Params} (l : List (Elt p)) : List Nat := l.map Elt.toNat

/-- run `f` on the codec selected by `--ecc_algo` (field and fcr from the translated table) -/
def withCodec (algo n k : Nat) (f : {p : Pff.GF.Params} → Pff.Facade.Codec (Pff.GF.Elt p) → String) : String :=
  match Pff.Consts.codecs.find? (fun c => c.1 == algo) with
  | some (_, gen, prim, fcr) =>
    if prim == Pff.GF.pA.prim && gen == Pff.GF.pA.gen then f (codecOf Pff.GF.pA algo n k fcr)
    else if prim == Pff.GF.pB.prim && gen == Pff.GF.pB.gen then f (codecOf Pff.GF.pB algo n k fcr)
    else "bad-field"
  | none => "bad-algo"

/-- replica tokens `pathhex:contenthex`, path components separated by `/` (hex of the utf-8 path) -/
def hexToString (h : String) : Option String := do
  let bytes ← parseHex h
  String.fromUTF8? (ByteArray.mk (bytes.map (·.toUInt8)).toArray)

def parseReplica (toks : List String) : Option Pff.Merge.Tree :=
  toks.foldlM (fun t tok => match tok.splitOn ":" with
    | [p, c] => do
      let ps ← hexToString p
      let cs ← parseHex c
      some (Pff.Merge.insertPath t (ps.splitOn "/") cs)
    | _ => none) (Pff.Merge.Tree.node [] [])

def splitAll (sep : String) (toks : List String) : List (List String) :=
  toks.foldr (fun t acc => if t == sep then [] :: acc else match acc with
    | [] => [[t]]
    | a :: rest => (t :: a) :: rest) [[]]

def strHex (s : String) : String := toHex (s.toUTF8.toList.map (·.toNat))

/-! ### rfigc (`pff hash`) -/

/-- `os.path.splitext(path)[1]` on a posix relative path -/
def extOfPath (p : String) : String :=
  let base := (p.splitOn "/").getLast!
  let cs := base.toList
  let lead := cs.takeWhile (· == '.')
  let rest := cs.drop lead.length
  match rest.reverse.findIdx? (· == '.') with
  | none => ""
  | some i => String.ofList (rest.drop (rest.length - 1 - i))

/-- hash table token `contenthex:md5:sha1` (digests as decimal numbers) -/
def parseHT (toks : List String) : Option (List (List Nat × Nat × Nat)) :=
  toks.mapM (fun t => match t.splitOn ":" with
    | [c, a, b] => do some ((← parseHex c), (← a.toNat?), (← b.toNat?))
    | _ => none)

def envOf (ht : List (List Nat × Nat × Nat)) : Pff.Rfigc.Env :=
  { H := fun c => match ht.find? (fun e => e.1 == c) with
      | some e => e.2
      | none => (0, 0)
    extOf := extOfPath
    roundSec := fun ns => (ns + 500000000) / 1000000000 }

/-- file token `pathhex:contenthex:mtime_ns` -/
def parseFiles (toks : List String) : Option Pff.Rfigc.Tree :=
  toks.mapM (fun t => match t.splitOn ":" with
    | [p, c, m] => do some { path := (← hexToString p), content := (← parseHex c), mtime := (← m.toNat?) }
    | _ => none)

def showRowsCore (rows : List Pff.Rfigc.Row) : String :=
  let strs := rows.map (fun r => s!"{strHex r.path}:{r.md5}:{r.sha1}:{r.size}:{strHex r.ext}")
  let sorted := strs.toArray.qsort (· < ·) |>.toList
  if sorted.isEmpty then "-" else ",".intercalate sorted

def parseInput (s : String) : Option Pff.Rfigc.Input :=
  if s == "-" then some .folder else (hexToString s).map .file

def parseOp (t : String) : Option Pff.Rfigc.Op :=
  match t.splitOn ":" with
  | ["A", p, c, m] => do some (.add { path := (← hexToString p), content := (← parseHex c), mtime := (← m.toNat?) })
  | ["D", p] => do some (.delete (← hexToString p))
  | ["U", a, r, i] => do some (.update (a == "1") (r == "1") (← parseInput i))
  | _ => none

/-! ### per-file correction logic with recorded hash / codec tables -/

def parseHTab (toks : List String) : Option (List (List Nat × List Nat)) :=
  toks.mapM (fun t => match t.splitOn ":" with
    | [m, h] => do some ((← parseHex m), (← parseHex h))
    | _ => none)

def parseCTab (toks : List String) : Option (List ((Nat × List Nat × List Nat) × Bool)) :=
  toks.mapM (fun t => match t.splitOn ":" with
    | [k, m, e, r] => do some (((← k.toNat?), (← parseHex m), (← parseHex e)), r == "1")
    | _ => none)

def parseDTab (toks : List String) : Option (List ((Nat × List Nat × List Nat) × Option (List Nat × List Nat))) :=
  toks.mapM (fun t => match t.splitOn ":" with
    | [k, m, e, "none"] => do some (((← k.toNat?), (← parseHex m), (← parseHex e)), none)
    | [k, m, e, a, b] => do some (((← k.toNat?), (← parseHex m), (← parseHex e)), some ((← parseHex a), (← parseHex b)))
    | _ => none)

def opsOfTables (ht : List (List Nat × List Nat)) (ct : List ((Nat × List Nat × List Nat) × Bool))
    (dt : List ((Nat × List Nat × List Nat) × Option (List Nat × List Nat))) : Pff.Ecc.Ops :=
  { H := fun m => match ht.find? (fun e => e.1 == m) with | some e => e.2 | none => [999]
    enc := fun _ _ => []
    chk := fun k m e => match ct.find? (fun x => x.1 == (k, m, e)) with | some x => x.2 | none => false
    dec := fun k m e => match dt.find? (fun x => x.1 == (k, m, e)) with | some x => x.2 | none => none }

def showFileResult (r : Pff.Ecc.FileResult) : String :=
  let o := match r.output with | none => "none" | some b => toHex b
  s!"{o} {if r.corrupted then 1 else 0} {if r.complete then 1 else 0} {if r.partialRep then 1 else 0}"

/-! ### entry level -/

def parseETab (toks : List String) : Option (List ((Nat × List Nat) × List Nat)) :=
  toks.mapM (fun t => match t.splitOn ":" with
    | [k, m, e] => do some (((← k.toNat?), (← parseHex m)), (← parseHex e))
    | _ => none)

def opsWithEnc (et : List ((Nat × List Nat) × List Nat)) (ct : List ((Nat × List Nat × List Nat) × Bool))
    (dt : List ((Nat × List Nat × List Nat) × Option (List Nat × List Nat))) : Pff.Ecc.Ops :=
  { opsOfTables [] ct dt with
    enc := fun k m => match et.find? (fun x => x.1 == (k, m)) with | some x => x.2 | none => [998] }

def parseParts (t : String) : Option Pff.Entry.EntryParts :=
  match t.splitOn ":" with
  | [a, b, c, d, e] => do
    some { path := (← parseHex a), sizeTxt := (← parseHex b), pathEcc := (← parseHex c), sizeEcc := (← parseHex d), track := (← parseHex e) }
  | _ => none

/-! ### whole correction run -/

def parseFS (toks : List String) : Option Pff.Run.FS :=
  toks.mapM (fun t => match t.splitOn ":" with
    | [p, c] => do some ((← parseHex p), (← parseHex c))
    | _ => none)

def showEffect : Pff.Run.Effect → String
  | .none => "n"
  | .wrote b => s!"w{toHex b}"
  | .removed => "r"

def showRun (r : Pff.Run.RunResult) : String :=
  let c := Pff.Run.counters r
  let outs := (Pff.Run.outputs r).map (fun e => s!"{toHex e.1}:{toHex e.2}")
  let sorted := outs.toArray.qsort (· < ·) |>.toList
  let o := if sorted.isEmpty then "-" else ",".intercalate sorted
  s!"{Pff.Run.exitOf r} {c.1} {c.2.1} {c.2.2.1} {c.2.2.2.1} {c.2.2.2.2} {o}"

/-! ### csv layer -/

def parseCps (t : String) : Option (List Nat) :=
  if t == "-" then some [] else (t.splitOn ".").mapM (·.toNat?)

def showCps (l : List Nat) : String := if l.isEmpty then "-" else ".".intercalate (l.map toString)

def parseCsvRows (t : String) : Option (List (List (List Nat))) :=
  if t == "~" then some []
  else (t.splitOn ";").mapM (fun r => if r == "=" then some [] else (r.splitOn ",").mapM parseCps)

def showCsvRows (rows : List (List (List Nat))) : String :=
  if rows.isEmpty then "~"
  else ";".intercalate (rows.map (fun r => if r.isEmpty then "=" else ",".intercalate (r.map showCps)))

def handle (toks : List String) : String :=
  match toks with
  | ["csvw", rows] =>
    match parseCsvRows rows with
    | some rows => showCps (Pff.Csv.writeRows rows)
    | none => "bad-op"
  | ["csvd", text] =>
    match parseCps text with
    | some text => match Pff.Csv.dictRead text with
      | some rows =>
        if rows.isEmpty then "~" else ";".intercalate (rows.map (fun r =>
          ",".intercalate (r.vals.map (fun kv => s!"{showCps kv.1}={match kv.2 with | some v => showCps v | none => "None"}"))
            ++ (if r.extra.isEmpty then "" else "+" ++ ",".intercalate (r.extra.map showCps))))
      | none => "error"
    | none => "bad-op"
  | ["csvr", text] =>
    match parseCps text with
    | some text => match Pff.Csv.readAll text with
      | some rows => showCsvRows rows
      | none => "error"
    | none => "bad-op"
  | "eccrun" :: tool :: fast :: thr :: hl :: mbs :: hdr :: kmain :: kintra :: ign :: r1 :: r2 :: r3 :: stream :: rest =>
    -- rest = FS ; HT ; CT ; DT
    match thr.toNat?, hl.toNat?, mbs.toNat?, hdr.toNat?, kmain.toNat?, kintra.toNat?, parseFloatBits r1, parseFloatBits r2, parseFloatBits r3,
          parseHex stream, splitAll ";" rest with
    | some thr, some hl, some mbs, some hdr, some kmain, some kintra, some r1, some r2, some r3, some stream, [fs, ht, ct, dt] =>
      match parseFS fs, parseHTab ht, parseCTab ct, parseDTab dt with
      | some fs, some ht, some ct, some dt =>
        let P : Pff.Run.Params :=
          { tool := if tool == "h" then .header else .whole, fast := fast == "1", thr := thr, hashLen := hl, mbs := mbs,
            headerSize := hdr, kMain := kmain, kOfFor := fun size => Pff.Layout.kOfFloatRead mbs hdr size r1 r2 r3,
            kIntra := kintra, ignoreSize := ign == "1" }
        showRun (Pff.Run.run (opsOfTables ht ct dt) P fs stream)
      | _, _, _, _ => "bad-op"
    | _, _, _, _, _, _, _, _, _, _, _ => "bad-op"
  | "eccgen" :: tool :: hl :: mbs :: hdr :: kmain :: kintra :: r1 :: r2 :: r3 :: pre :: rest =>
    -- rest = FS ; HT ; ET  → the bytes of the generated ecc file
    match hl.toNat?, mbs.toNat?, hdr.toNat?, kmain.toNat?, kintra.toNat?, parseFloatBits r1, parseFloatBits r2, parseFloatBits r3,
          (if pre == "-" then some [] else parseHex pre), splitAll ";" rest with
    | some hl, some mbs, some hdr, some kmain, some kintra, some r1, some r2, some r3, some pre, [fs, ht, et] =>
      match parseFS fs, parseHTab ht, parseETab et with
      | some fs, some ht, some et =>
        let P : Pff.Run.Params :=
          { tool := if tool == "h" then .header else .whole, fast := true, thr := 0, hashLen := hl, mbs := mbs,
            headerSize := hdr, kMain := kmain, kOfFor := fun size => Pff.Layout.kOfFloat mbs hdr size r1 r2 r3,
            kIntra := kintra, ignoreSize := false }
        let O : Pff.Ecc.Ops := { opsWithEnc et [] [] with H := (opsOfTables ht [] []).H }
        toHex (Pff.Run.genStream O P pre fs)
      | _, _, _ => "bad-op"
    | _, _, _, _, _, _, _, _, _, _ => "bad-op"
  | ["efields", e] =>
    match parseHex e with
    | some e =>
      let f := Pff.Entry.entryFields e
      s!"{toHex f.path} {toHex f.sizeRaw} {toHex f.pathEcc} {toHex f.sizeEcc} {f.trackOff} {f.stripped}"
    | none => "bad-op"
  | ["digits", n] =>
    match n.toNat? with
    | some n => toHex (Pff.Entry.digitsOf n)
    | none => "bad-op"
  | ["pyint", b] =>
    match parseHex b with
    | some b => match Pff.Entry.pyInt b with | some n => toString n | none => "ValueError"
    | none => "bad-op"
  | "intra" :: tool :: k :: mbs :: field :: ecc :: rest =>
    match k.toNat?, mbs.toNat?, parseHex field, parseHex ecc, splitAll ";" rest with
    | some k, some mbs, some f, some e, [ct, dt] =>
      match parseCTab ct, parseDTab dt with
      | some ct, some dt =>
        let O := opsOfTables [] ct dt
        let r := if tool == "h" then Pff.Entry.correctIntraHeader O k mbs f e else Pff.Entry.correctIntraWhole O k mbs f e
        s!"{toHex r.field} {if r.corrupted then 1 else 0} {if r.corrected then 1 else 0}"
      | _, _ => "bad-op"
    | _, _, _, _, _ => "bad-op"
  | "intraenc" :: k :: field :: rest =>
    match k.toNat?, parseHex field, parseETab rest with
    | some k, some f, some et => toHex (Pff.Entry.intraEcc (opsWithEnc et [] []).enc k f)
    | _, _, _ => "bad-op"
  | "genecc" :: pre :: parts =>
    match parseHex pre, parts.mapM parseParts with
    | some pre, some ps =>
      let idx := Pff.Entry.genIdx pre.length ps
      s!"{toHex (Pff.Entry.genEcc pre ps)} {" ".intercalate (idx.map (fun ko => s!"{ko.1}:{ko.2}"))}"
    | _, _ => "bad-op"
  | "genidx" :: pre :: rest =>
    -- rest = parts… ; ET  → the bytes of the generated index file
    match parseHex pre, splitAll ";" rest with
    | some pre, [parts, et] =>
      match parts.mapM parseParts, parseETab et with
      | some ps, some et => toHex (Pff.Entry.genIdxFile (opsWithEnc et [] []).enc (Pff.Entry.genIdx pre.length ps))
      | _, _ => "bad-op"
    | _, _ => "bad-op"
  | "recidx" :: nIdx :: kIdx :: idx :: file :: rest =>
    match nIdx.toNat?, kIdx.toNat?, parseHex idx, parseHex file, splitAll ";" rest with
    | some nIdx, some kIdx, some idx, some file, [ct, dt] =>
      match parseCTab ct, parseDTab dt with
      | some ct, some dt =>
        match Pff.Entry.recoverIdx (opsOfTables [] ct dt) nIdx kIdx idx file with
        | some f => toHex f
        | none => "abort"
      | _, _ => "bad-op"
    | _, _, _, _, _ => "bad-op"
  | "eccfileh" :: fast :: thr :: hl :: mbs :: k :: readLen :: content :: track :: rest =>
    match thr.toNat?, hl.toNat?, mbs.toNat?, k.toNat?, readLen.toNat?, parseHex content, parseHex track, splitAll ";" rest with
    | some thr, some hl, some mbs, some k, some readLen, some c, some t, [ht, ct, dt] =>
      match parseHTab ht, parseCTab ct, parseDTab dt with
      | some ht, some ct, some dt =>
        showFileResult (Pff.Ecc.correctHeaderFile (opsOfTables ht ct dt) (fast == "1") thr k hl mbs readLen c t)
      | _, _, _ => "bad-op"
    | _, _, _, _, _, _, _, _ => "bad-op"
  | "eccfilew" :: fast :: thr :: hl :: mbs :: hdr :: recsize :: r1 :: r2 :: r3 :: content :: track :: rest =>
    match thr.toNat?, hl.toNat?, mbs.toNat?, hdr.toNat?, recsize.toNat?, parseFloatBits r1, parseFloatBits r2, parseFloatBits r3,
          parseHex content, parseHex track, splitAll ";" rest with
    | some thr, some hl, some mbs, some hdr, some rs, some r1, some r2, some r3, some c, some t, [ht, ct, dt] =>
      match parseHTab ht, parseCTab ct, parseDTab dt with
      | some ht, some ct, some dt =>
        showFileResult (Pff.Ecc.correctWholeFile (opsOfTables ht ct dt) (fast == "1") thr
          (Pff.Layout.kOfFloatRead mbs hdr rs r1 r2 r3) hl mbs c t)
      | _, _, _ => "bad-op"
    | _, _, _, _, _, _, _, _, _, _, _ => "bad-op"
  | "rfcheck" :: m :: sm :: sh :: inp :: rest =>
    -- rest = TREE0 ; TREE1 ; HASHTABLE   (db = genDb TREE0, checked against TREE1)
    match splitAll ";" rest, parseInput inp with
    | [t0, t1, ht], some inp =>
      match parseFiles t0, parseFiles t1, parseHT ht with
      | some t0, some t1, some ht =>
        let E := envOf ht
        let o : Pff.Rfigc.CheckOpts := { noMtime := m == "1", skipMissing := sm == "1", skipHash := sh == "1" }
        let r := Pff.Rfigc.check E o (Pff.Rfigc.genDb E t0) t1 inp
        let rep := if r.reported.isEmpty then "-" else ",".intercalate (r.reported.map strHex)
        s!"{r.exit} {rep}"
      | _, _, _ => "bad-op"
    | _, _ => "bad-op"
  | "rfhist" :: rest =>
    -- rest = TREE0 ; OPS ; HASHTABLE ; reply: core rows after every update op
    match splitAll ";" rest with
    | [t0, ops, ht] =>
      match parseFiles t0, ops.mapM parseOp, parseHT ht with
      | some t0, some ops, some ht =>
        let E := envOf ht
        let s0 : Pff.Rfigc.State := { tree := t0, db := Pff.Rfigc.genDb E t0 }
        let (_, outs) := ops.foldl (fun (acc : Pff.Rfigc.State × List String) op =>
          let s' := Pff.Rfigc.step E acc.1 op
          match op with
          | .update _ _ _ => (s', acc.2 ++ [showRowsCore s'.db])
          | _ => (s', acc.2)) (s0, [showRowsCore s0.db])
        " | ".intercalate outs
      | _, _, _ => "bad-op"
    | _ => "bad-op"
  | "rfscrape" :: rest =>
    -- rest = ORIG ; SCRAPED contents (hex) ; HASHTABLE
    match splitAll ";" rest with
    | [t0, sc, ht] =>
      match parseFiles t0, sc.mapM parseHex, parseHT ht with
      | some t0, some sc, some ht =>
        let E := envOf ht
        let db := Pff.Rfigc.genDb E t0
        let paths := ((Pff.Rfigc.scrapeWrites E db sc).map (·.path)).eraseDups
        let outs := paths.filterMap (Pff.Rfigc.scrapeOutput E db sc)
        let strs := outs.map (fun o => s!"{strHex o.path}:{toHex o.content}:{o.mtime}")
        let sorted := strs.toArray.qsort (· < ·) |>.toList
        if sorted.isEmpty then "-" else " ".intercalate sorted
      | _, _, _ => "bad-op"
    | _ => "bad-op"
  | "dup" :: bs :: rest =>
    match bs.toNat?, (splitAll ";" rest).mapM parseReplica with
    | some bs, some reps =>
      let r := Pff.Merge.dup bs reps
      let rows := (r.files.zip r.used).map (fun fu =>
        s!"{strHex ("/".intercalate fu.1.1)}:{toHex fu.1.2}:{showNums fu.2.2}")
      s!"{r.exit} {" ".intercalate rows}"
    | _, _ => "bad-op"
  | "dupd" :: bs :: rest =>
    -- rest = DB (pathhex:md5:sha1 …) ; HT (contenthex:md5:sha1 …) ; replica ; replica ; …
    match bs.toNat?, splitAll ";" rest with
    | some bs, db :: ht :: reps =>
      let dbp : Option (List (String × Nat × Nat)) := db.mapM (fun t => match t.splitOn ":" with
        | [p, a, b] => do some ((← hexToString p), (← a.toNat?), (← b.toNat?))
        | _ => none)
      match dbp, parseHT ht, reps.mapM parseReplica with
      | some dbp, some ht, some reps =>
        let Hf : List Nat → Nat × Nat := fun c => match ht.find? (fun e => e.1 == c) with | some e => e.2 | none => (0, 0)
        let res := Pff.DupDb.dupWithDb bs Hf (dbp.map (fun e => (e.1, e.2.1, e.2.2))) reps
        let rows := res.rows.map (fun r =>
          let mk := match r.mark with | .ok => "OK" | .ko => "KO" | .unknown => "-"
          s!"{strHex ("/".intercalate r.path)}:{toHex r.out}:{showNums r.used}:{mk}:{r.errcode}")
        s!"{res.exit} {" ".intercalate rows}"
      | _, _, _ => "bad-op"
    | _, _ => "bad-op"
  | "walk" :: rest =>
    match parseReplica rest with
    | some t => " ".intercalate ((Pff.Merge.walk t).map (fun pc => strHex ("/".intercalate pc.1)))
    | none => "bad-op"
  | ["gfmul", prim, a, b] =>
    match prim.toNat?, a.toNat?, b.toNat? with
    | some prim, some a, some b =>
      if prim == Pff.GF.pA.prim then toString (Pff.GF.tmul Pff.GF.pA a b)
      else if prim == Pff.GF.pB.prim then toString (Pff.GF.tmul Pff.GF.pB a b) else "bad-field"
    | _, _, _ => "bad-op"
  | ["gfmulrow", prim, a] =>
    -- the whole row a * b, b = 0..255
    match prim.toNat?, a.toNat? with
    | some prim, some a =>
      if prim == Pff.GF.pA.prim then showNums ((List.range 256).map (Pff.GF.tmul Pff.GF.pA a))
      else if prim == Pff.GF.pB.prim then showNums ((List.range 256).map (Pff.GF.tmul Pff.GF.pB a)) else "bad-field"
    | _, _ => "bad-op"
  | ["enc", algo, n, k0, k, msg] =>
    match algo.toNat?, n.toNat?, k0.toNat?, k.toNat?, parseHex msg with
    | some algo, some n, some k0, some k, some m =>
      withCodec algo n k0 (fun {p} c => toHex (natList (Pff.Facade.encode c (eltList p m) k)))
    | _, _, _, _, _ => "bad-op"
  | ["prep", algo, n, k0, k, msg, ecc, en, ec, oe] =>
    -- what ECCMan.decode hands to the library
    match algo.toNat?, n.toNat?, k0.toNat?, k.toNat?, parseHex msg, parseHex ecc, ec.toNat? with
    | some algo, some n, some k0, some k, some m, some e, some ec =>
      withCodec algo n k0 (fun {p} c =>
        match Pff.Facade.prepareDecode c (eltList p m) (eltList p e) k (en == "1") (Pff.GF.Elt.ofNat p ec) (oe == "1") with
        | none => "early"
        | some call =>
          let ep := match call.erasePos with | none => "none" | some l => showNums l
          s!"{toHex (natList call.word)} {call.nsym} {ep} {if call.onlyErasures then 1 else 0} {call.padLen}")
    | _, _, _, _, _, _, _ => "bad-op"
  | ["dec", algo, n, k0, k, msg, ecc, en, ec, oe, lib] =>
    -- ECCMan.decode with the library replaced by its recorded result `ok:msghex:ecchex` / `err:kind`
    match algo.toNat?, n.toNat?, k0.toNat?, k.toNat?, parseHex msg, parseHex ecc, ec.toNat? with
    | some algo, some n, some k0, some k, some m, some e, some ec =>
      withCodec algo n k0 (fun {p} c =>
        let res : Option (Except Pff.Facade.DecErr (List (Pff.GF.Elt p) × List (Pff.GF.Elt p))) :=
          match lib.splitOn ":" with
          | ["ok", a, b] => match parseHex a, parseHex b with
            | some a, some b => some (.ok (eltList p a, eltList p b))
            | _, _ => none
          | ["err", "ReedSolomonError"] => some (.error .reedSolomonError)
          | ["err", "RSCodecError"] => some (.error .rsCodecError)
          | ["err", _] => some (.error .other)
          | _ => none
        match res with
        | none => "bad-op"
        | some res =>
          match Pff.Facade.decode (fun _ _ _ _ _ => res) c (eltList p m) (eltList p e) k (en == "1") (Pff.GF.Elt.ofNat p ec) (oe == "1") with
          | .ok (a, b) => s!"ok {toHex (natList a)} {toHex (natList b)}"
          | .error .reedSolomonError => "err ReedSolomonError"
          | .error .rsCodecError => "err RSCodecError"
          | .error .other => "err other")
    | _, _, _, _, _, _, _ => "bad-op"
  | ["chk", algo, n, k0, k, msg, ecc] =>
    match algo.toNat?, n.toNat?, k0.toNat?, k.toNat?, parseHex msg, parseHex ecc with
    | some algo, some n, some k0, some k, some m, some e =>
      withCodec algo n k0 (fun {p} c => if Pff.Facade.check c (eltList p m) (eltList p e) k then "1" else "0")
    | _, _, _, _, _, _ => "bad-op"
  | ["ksize", mbs, rate] =>
    match mbs.toNat?, parseFloatBits rate with
    | some mbs, some r => toString (Pff.Layout.msgSize mbs r)
    | _, _ => "bad-op"
  | ["fscale", x, xmin, xmax, a, b] =>
    match x.toNat?, xmin.toNat?, xmax.toNat?, parseFloatBits a, parseFloatBits b with
    | some x, some xmin, some xmax, some a, some b => toString (Pff.Layout.featureScaling x xmin xmax a b).toBits.toNat
    | _, _, _, _, _ => "bad-op"
  | ["layoutw", mbs, hdr, size, r1, r2, r3] =>
    -- generation partition of the whole-file tool for a file of `size` bytes
    match mbs.toNat?, hdr.toNat?, size.toNat?, parseFloatBits r1, parseFloatBits r2, parseFloatBits r3 with
    | some mbs, some hdr, some size, some r1, some r2, some r3 =>
      showBlocks (Pff.Layout.layoutGen (Pff.Layout.kOfFloat mbs hdr size r1 r2 r3) size (size + 1) 0)
    | _, _, _, _, _, _ => "bad-op"
  | ["asmw", mbs, hdr, hl, r1, r2, r3, content] =>
    -- generate the track with the stub hash/encoder, then read it back
    match mbs.toNat?, hdr.toNat?, hl.toNat?, parseFloatBits r1, parseFloatBits r2, parseFloatBits r3, parseHex content with
    | some mbs, some hdr, some hl, some r1, some r2, some r3, some c =>
      let kOf := Pff.Layout.kOfFloat mbs hdr c.length r1 r2 r3
      let track := Pff.Layout.genTrack (stubH hl) (stubEnc mbs) kOf c
      s!"{toHex track} {showAsm (Pff.Layout.assemble kOf hl mbs c track (c.length + 1) 0 0)}"
    | _, _, _, _, _, _, _ => "bad-op"
  | ["layouth", k, hdr, size] =>
    match k.toNat?, hdr.toNat?, size.toNat? with
    | some k, some hdr, some size => showBlocks (Pff.Layout.layoutHeader k hdr size (size + 1) 0)
    | _, _, _ => "bad-op"
  | ["asmh", mbs, k, hdr, hl, content] =>
    match mbs.toNat?, k.toNat?, hdr.toNat?, hl.toNat?, parseHex content with
    | some mbs, some k, some hdr, some hl, some c =>
      let track := Pff.Layout.genTrackHeader (stubH hl) (stubEnc mbs) k hdr c
      s!"{toHex track} {showAsm (Pff.Layout.assembleHeader k hl mbs hdr c track (c.length + 1) 0 0)}"
    | _, _, _, _, _ => "bad-op"
  | ["tamper", mode, blockCoin, burst, header, bs, content, rho] =>
    match parseTamperParams mode blockCoin burst header bs, parseHex content, parseNums rho with
    | some P, some c, some ρ =>
      let r := Pff.Tamper.tamperFile P c ρ
      s!"{toHex r.content} {r.count} {r.total} {r.rest.length}"
    | _, _, _ => "bad-op"
  | "tamperdir" :: mode :: blockCoin :: burst :: header :: bs :: rho :: files =>
    match parseTamperParams mode blockCoin burst header bs, parseNums rho, parseTree files with
    | some P, some ρ, some fs =>
      let r := Pff.Tamper.tamperDir P fs ρ
      let fl := " ".intercalate (r.files.map (fun pc => s!"{pc.1}:{toHex pc.2}"))
      s!"{r.filesTampered} {r.filesCount} {r.count} {r.total} {r.rest.length} {fl}"
    | _, _, _ => "bad-op"
  | ["gne", bs, pos, marker, stream] =>
    match bs.toNat?, pos.toNat?, parseHex marker, parseHex stream with
    | some bs, some pos, some m, some s =>
      match Pff.Scan.getNextEntry false s m bs pos with
      | (some (a, b), p) => s!"{a},{b} {p}"
      | (none, p) => s!"none {p}"
    | _, _, _, _ => "bad-op"
  | ["gnec", bs, pos, marker, stream] =>
    match bs.toNat?, pos.toNat?, parseHex marker, parseHex stream with
    | some bs, some pos, some m, some s =>
      match Pff.Scan.getNextEntryContent false s m bs pos with
      | (some c, p) => s!"{toHex c} {p}"
      | (none, p) => s!"none {p}"
    | _, _, _, _ => "bad-op"
  | ["scanall", bs, marker, stream] =>
    match bs.toNat?, parseHex marker, parseHex stream with
    | some bs, some m, some s =>
      let r := Pff.Scan.scanAll false s m bs (s.length + 2) 0
      if r.isEmpty then "-" else " ".intercalate (r.map (fun ab => s!"{ab.1},{ab.2}"))
    | _, _, _ => "bad-op"
  | "diffbytesdir" :: bs :: rest =>
    let (a, b) := splitAt ";" rest
    match bs.toNat?, parseTree a, parseTree b with
    | some bs, some t1, some t2 =>
      let r := Pff.Diff.diffBytesDir bs t1 t2
      let e := match Pff.Diff.restestExit r with | none => "crash" | some n => toString n
      s!"{r.1} {r.2} {e}"
    | _, _, _ => "bad-op"
  | "diffcountdir" :: bs :: rest =>
    let (a, b) := splitAt ";" rest
    match bs.toNat?, parseTree a, parseTree b with
    | some bs, some t1, some t2 =>
      let r := Pff.Diff.diffCountDir bs t1 t2
      s!"{r.1} {r.2}"
    | _, _, _ => "bad-op"
  | "vote" :: bs :: copies =>
    match bs.toNat?, allSome (copies.map parseHex) with
    | some bs, some cs =>
      let r := Pff.Vote.majorityVote bs cs
      s!"{toHex r.out} {r.status} {showNums r.errors}"
    | _, _ => "bad-op"
  | "pathop" :: fn :: cwd :: args =>
    -- path functions: replies hex, `none` (the real function raises) or `/`-separated... parts as hex joined by ","
    match parseHex cwd, args.mapM parseHex with
    | some cwd, some args =>
      let showParts := fun (l : List (List Nat)) => if l.isEmpty then "~" else ",".intercalate (l.map toHex)
      let showOpt := fun (o : Option (List Nat)) => match o with | some b => toHex b | none => "none"
      match fn, args with
      | "normpath", [p] => toHex (Pff.Path.normpath p)
      | "abspath", [p] => toHex (Pff.Path.abspath cwd p)
      | "join", a :: more => toHex (Pff.Path.join a more)
      | "relpath", [p, s] => showOpt (Pff.Path.relpath cwd p s)
      | "dirname", [p] => toHex (Pff.Path.dirname p)
      | "basename", [p] => toHex (Pff.Path.basename p)
      | "split", [p] => showParts (Pff.Path.splitSlash p)
      | "parts", [p] => showParts (Pff.Path.pureParts p)
      | "path2unix", [p] => showOpt (Pff.Path.path2unix p)
      | "relposix", [d, f, par] => (match Pff.Path.relpathPosix cwd d f par with | some l => showParts l | none => "none")
      | "genrel", [root, d, f] => showOpt ((Pff.Path.relpath cwd (Pff.Path.join2 d f) root).bind Pff.Path.path2unix)
      | _, _ => "bad-op"
    | _, _ => "bad-op"
  | ["rfdbhdr"] => ",".intercalate (Pff.RfigcDb.header.map showCps)
  | ["rfdbrow", p, m, sh, mt, z, e] =>
    -- the csv fields of one database row; and the row parsed back from the text of a one-row database file
    match hexToString p, m.toNat?, sh.toNat?, mt.toNat?, z.toNat?, hexToString e with
    | some p, some m, some sh, some mt, some z, some e =>
      let r : Pff.Rfigc.Row := { path := p, md5 := m, sha1 := sh, mtime := mt, size := z, ext := e }
      let back := Pff.RfigcDb.readDb (Pff.Csv.writeRows [Pff.RfigcDb.header, Pff.RfigcDb.rowFields r])
      s!"{",".intercalate ((Pff.RfigcDb.rowFields r).map showCps)} {if back == some [r] then "roundtrip" else "LOST"}"
    | _, _, _, _, _, _ => "bad-op"
  | ["hasher", algo, m5, s2] =>
    -- `Hasher(algo).hash(m)` from the two hex digests of m, and `len(Hasher(algo))`
    match hexToString algo, parseHex m5, parseHex s2 with
    | some algo, some m5, some s2 =>
      let h := match Pff.Hasher.hash algo m5 s2 with | some v => toHex v | none => "NameError"
      let l := match Pff.Hasher.length algo with | some n => toString n | none => "NameError"
      s!"{h} {l}"
    | _, _, _ => "bad-op"
  | ["diffbytes", bs, s1, s2, a, b] =>
    match bs.toNat?, s1.toNat?, s2.toNat?, parseHex a, parseHex b with
    | some bs, some s1, some s2, some a, some b =>
      let r := Pff.Diff.diffBytesFiles bs s1 s2 a b
      s!"{r.1} {r.2}"
    | _, _, _, _, _ => "bad-op"
  | ["diffcount", bs, s1, s2, a, b] =>
    match bs.toNat?, s1.toNat?, s2.toNat?, parseHex a, parseHex b with
    | some bs, some s1, some s2, some a, some b =>
      if Pff.Diff.diffCountFiles bs s1 s2 a b then "1" else "0"
    | _, _, _, _, _ => "bad-op"
  | _ => "bad-op"

partial def loop (h : IO.FS.Stream) (out : IO.FS.Stream) : IO Unit := do
  let line ← h.getLine
  if line.isEmpty then return ()
  let toks := (line.trimAscii.toString.splitOn " ").filter (· ≠ "")
  out.putStrLn (handle toks)
  loop h out

end Pff.Driver

def main : IO Unit := do
  let stdin ← IO.getStdin
  let stdout ← IO.getStdout
  Pff.Driver.loop stdin stdout
