import Pff.Consts
import Pff.Model.Vote
import Pff.Model.Diff
import Pff.Model.Scan
import Pff.Model.Tamper
/-!
Line-protocol driver: one request per line on stdin, one canonical reply per line on stdout.
Run with `lake env lean --run Pff/Driver.lean`. Byte strings are hex ("-" = empty); lists of
numbers are comma separated ("-" = empty). Unknown / malformed requests answer `bad-op`
(never a default value).
-/
namespace Pff.Driver

def hexVal (c : Char) : Option Nat :=
  if '0' ≤ c ∧ c ≤ '9' then some (c.toNat - '0'.toNat)
  else if 'a' ≤ c ∧ c ≤ 'f' then some (c.toNat - 'a'.toNat + 10)
  else none

def parseHexAux : List Char → List Nat → Option (List Nat)
  | [], acc => some acc.reverse
  | [_], _ => none
  | a :: b :: t, acc => do
      let x ← hexVal a
      let y ← hexVal b
      parseHexAux t ((x * 16 + y) :: acc)

def parseHex (s : String) : Option (List Nat) :=
  if s == "-" then some [] else parseHexAux s.toList []

def hexDigit (n : Nat) : Char := "0123456789abcdef".toList.getD n '?'

def toHex (l : List Nat) : String :=
  if l.isEmpty then "-" else String.ofList (l.flatMap (fun b => [hexDigit (b / 16), hexDigit (b % 16)]))

def showNums (l : List Nat) : String :=
  if l.isEmpty then "-" else ",".intercalate (l.map toString)

def parseNums (s : String) : Option (List Nat) :=
  if s == "-" then some [] else (s.splitOn ",").mapM (·.toNat?)

def allSome {α} (l : List (Option α)) : Option (List α) := l.mapM id

/-- tree tokens `pathhex:contenthex` (the hex text of the path is used as the path key) -/
def parseTree (toks : List String) : Option Pff.Diff.Tree :=
  toks.mapM (fun t => match t.splitOn ":" with
    | [p, c] => (parseHex c).map (fun c => (p, c))
    | _ => none)

def splitAt (sep : String) (toks : List String) : List String × List String :=
  (toks.takeWhile (· ≠ sep), (toks.dropWhile (· ≠ sep)).drop 1)

def parseTamperParams (mode blockCoin burst header bs : String) : Option Pff.Tamper.Params := do
  let m ← match mode with
    | "e" => some Pff.Tamper.Mode.erasure | "n" => some Pff.Tamper.Mode.noise | "o" => some Pff.Tamper.Mode.other
    | _ => none
  let bc ← blockCoin.toNat?
  let bu ← burst.toNat?
  let h ← if header == "-" then some none else header.toNat?.map some
  let bs ← bs.toNat?
  some { mode := m, blockCoin := bc ≠ 0, burst := bu ≠ 0, header := h, blocksize := bs }

def handle (toks : List String) : String :=
  match toks with
  | ["tamper", mode, blockCoin, burst, header, bs, content, rho] =>
    match parseTamperParams mode blockCoin burst header bs, parseHex content, parseNums rho with
    | some P, some c, some ρ =>
      let r := Pff.Tamper.tamperFile P c ρ
      s!"{toHex r.content} {r.count} {r.total} {r.rest.length}"
    | _, _, _ => "bad-op"
  | "tamperdir" :: mode :: blockCoin :: burst :: header :: bs :: rho :: files =>
    match parseTamperParams mode blockCoin burst header bs, parseNums rho, parseTree files with
    | some P, some ρ, some fs =>
      let r := Pff.Tamper.tamperDir P fs ρ
      let fl := " ".intercalate (r.files.map (fun pc => s!"{pc.1}:{toHex pc.2}"))
      s!"{r.filesTampered} {r.filesCount} {r.count} {r.total} {r.rest.length} {fl}"
    | _, _, _ => "bad-op"
  | ["gne", bs, pos, marker, stream] =>
    match bs.toNat?, pos.toNat?, parseHex marker, parseHex stream with
    | some bs, some pos, some m, some s =>
      match Pff.Scan.getNextEntry false s m bs pos with
      | (some (a, b), p) => s!"{a},{b} {p}"
      | (none, p) => s!"none {p}"
    | _, _, _, _ => "bad-op"
  | ["gnec", bs, pos, marker, stream] =>
    match bs.toNat?, pos.toNat?, parseHex marker, parseHex stream with
    | some bs, some pos, some m, some s =>
      match Pff.Scan.getNextEntryContent false s m bs pos with
      | (some c, p) => s!"{toHex c} {p}"
      | (none, p) => s!"none {p}"
    | _, _, _, _ => "bad-op"
  | ["scanall", bs, marker, stream] =>
    match bs.toNat?, parseHex marker, parseHex stream with
    | some bs, some m, some s =>
      let r := Pff.Scan.scanAll false s m bs (s.length + 2) 0
      if r.isEmpty then "-" else " ".intercalate (r.map (fun ab => s!"{ab.1},{ab.2}"))
    | _, _, _ => "bad-op"
  | "diffbytesdir" :: bs :: rest =>
    let (a, b) := splitAt ";" rest
    match bs.toNat?, parseTree a, parseTree b with
    | some bs, some t1, some t2 =>
      let r := Pff.Diff.diffBytesDir bs t1 t2
      let e := match Pff.Diff.restestExit r with | none => "crash" | some n => toString n
      s!"{r.1} {r.2} {e}"
    | _, _, _ => "bad-op"
  | "diffcountdir" :: bs :: rest =>
    let (a, b) := splitAt ";" rest
    match bs.toNat?, parseTree a, parseTree b with
    | some bs, some t1, some t2 =>
      let r := Pff.Diff.diffCountDir bs t1 t2
      s!"{r.1} {r.2}"
    | _, _, _ => "bad-op"
  | "vote" :: bs :: copies =>
    match bs.toNat?, allSome (copies.map parseHex) with
    | some bs, some cs =>
      let r := Pff.Vote.majorityVote bs cs
      s!"{toHex r.out} {r.status} {showNums r.errors}"
    | _, _ => "bad-op"
  | ["diffbytes", bs, s1, s2, a, b] =>
    match bs.toNat?, s1.toNat?, s2.toNat?, parseHex a, parseHex b with
    | some bs, some s1, some s2, some a, some b =>
      let r := Pff.Diff.diffBytesFiles bs s1 s2 a b
      s!"{r.1} {r.2}"
    | _, _, _, _, _ => "bad-op"
  | ["diffcount", bs, s1, s2, a, b] =>
    match bs.toNat?, s1.toNat?, s2.toNat?, parseHex a, parseHex b with
    | some bs, some s1, some s2, some a, some b =>
      if Pff.Diff.diffCountFiles bs s1 s2 a b then "1" else "0"
    | _, _, _, _, _ => "bad-op"
  | _ => "bad-op"

partial def loop (h : IO.FS.Stream) (out : IO.FS.Stream) : IO Unit := do
  let line ← h.getLine
  if line.isEmpty then return ()
  let toks := (line.trimAscii.toString.splitOn " ").filter (· ≠ "")
  out.putStrLn (handle toks)
  loop h out

end Pff.Driver

def main : IO Unit := do
  let stdin ← IO.getStdin
  let stdout ← IO.getStdout
  Pff.Driver.loop stdin stdout
