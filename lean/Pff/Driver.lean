import Pff.Consts
import Pff.Model.Vote
import Pff.Model.Diff
/-!
Line-protocol driver: one request per line on stdin, one canonical reply per line on stdout.
Run with `lake env lean --run Pff/Driver.lean`. Byte strings are hex ("-" = empty); lists of
numbers are comma separated ("-" = empty). Unknown / malformed requests answer `bad-op`
(never a default value).
-/
namespace Pff.Driver

def hexVal (c : Char) : Option Nat :=
  if '0' ≤ c ∧ c ≤ '9' then some (c.toNat - '0'.toNat)
  else if 'a' ≤ c ∧ c ≤ 'f' then some (c.toNat - 'a'.toNat + 10)
  else none

def parseHexAux : List Char → List Nat → Option (List Nat)
  | [], acc => some acc.reverse
  | [_], _ => none
  | a :: b :: t, acc => do
      let x ← hexVal a
      let y ← hexVal b
      parseHexAux t ((x * 16 + y) :: acc)

def parseHex (s : String) : Option (List Nat) :=
  if s == "-" then some [] else parseHexAux s.toList []

def hexDigit (n : Nat) : Char := "0123456789abcdef".toList.getD n '?'

def toHex (l : List Nat) : String :=
  if l.isEmpty then "-" else String.ofList (l.flatMap (fun b => [hexDigit (b / 16), hexDigit (b % 16)]))

def showNums (l : List Nat) : String :=
  if l.isEmpty then "-" else ",".intercalate (l.map toString)

def parseNums (s : String) : Option (List Nat) :=
  if s == "-" then some [] else (s.splitOn ",").mapM (·.toNat?)

def allSome {α} (l : List (Option α)) : Option (List α) := l.mapM id

/-- tree tokens `pathhex:contenthex` (the hex text of the path is used as the path key) -/
def parseTree (toks : List String) : Option Pff.Diff.Tree :=
  toks.mapM (fun t => match t.splitOn ":" with
    | [p, c] => (parseHex c).map (fun c => (p, c))
    | _ => none)

def splitAt (sep : String) (toks : List String) : List String × List String :=
  (toks.takeWhile (· ≠ sep), (toks.dropWhile (· ≠ sep)).drop 1)

def handle (toks : List String) : String :=
  match toks with
  | "diffbytesdir" :: bs :: rest =>
    let (a, b) := splitAt ";" rest
    match bs.toNat?, parseTree a, parseTree b with
    | some bs, some t1, some t2 =>
      let r := Pff.Diff.diffBytesDir bs t1 t2
      let e := match Pff.Diff.restestExit r with | none => "crash" | some n => toString n
      s!"{r.1} {r.2} {e}"
    | _, _, _ => "bad-op"
  | "diffcountdir" :: bs :: rest =>
    let (a, b) := splitAt ";" rest
    match bs.toNat?, parseTree a, parseTree b with
    | some bs, some t1, some t2 =>
      let r := Pff.Diff.diffCountDir bs t1 t2
      s!"{r.1} {r.2}"
    | _, _, _ => "bad-op"
  | "vote" :: bs :: copies =>
    match bs.toNat?, allSome (copies.map parseHex) with
    | some bs, some cs =>
      let r := Pff.Vote.majorityVote bs cs
      s!"{toHex r.out} {r.status} {showNums r.errors}"
    | _, _ => "bad-op"
  | ["diffbytes", bs, s1, s2, a, b] =>
    match bs.toNat?, s1.toNat?, s2.toNat?, parseHex a, parseHex b with
    | some bs, some s1, some s2, some a, some b =>
      let r := Pff.Diff.diffBytesFiles bs s1 s2 a b
      s!"{r.1} {r.2}"
    | _, _, _, _, _ => "bad-op"
  | ["diffcount", bs, s1, s2, a, b] =>
    match bs.toNat?, s1.toNat?, s2.toNat?, parseHex a, parseHex b with
    | some bs, some s1, some s2, some a, some b =>
      if Pff.Diff.diffCountFiles bs s1 s2 a b then "1" else "0"
    | _, _, _, _, _ => "bad-op"
  | _ => "bad-op"

partial def loop (h : IO.FS.Stream) (out : IO.FS.Stream) : IO Unit := do
  let line ← h.getLine
  if line.isEmpty then return ()
  let toks := (line.trimAscii.toString.splitOn " ").filter (· ≠ "")
  out.putStrLn (handle toks)
  loop h out

end Pff.Driver

def main : IO Unit := do
  let stdin ← IO.getStdin
  let stdout ← IO.getStdout
  Pff.Driver.loop stdin stdout
