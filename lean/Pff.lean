import Pff.Consts
import Pff.Driver
import Pff.Props.C06
import Pff.Props.C07
import Pff.Props.C10
import Pff.Props.C14
import Pff.Props.C19
import Pff.Props.C20
